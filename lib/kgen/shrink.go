package kgen

import "encoding/json"

func (p *Program) clone() *Program {
	b, _ := json.Marshal(p)
	q := &Program{}
	json.Unmarshal(b, q)
	return q
}

// without returns a copy of the program with op i removed; references to the
// value it produced are redirected to the flat global id.
func (p *Program) without(i int) *Program {
	q := p.clone()
	v := NumBuiltin
	for _, o := range p.Ops[:i] {
		if producesValue(o.Kind) {
			v++
		}
	}
	removedValue := producesValue(p.Ops[i].Kind)
	q.Ops = append(q.Ops[:i], q.Ops[i+1:]...)
	if !removedValue {
		return q
	}
	fix := func(r *int) {
		if *r == v {
			*r = ValGID
		} else if *r > v {
			*r--
		}
	}
	for j := i; j < len(q.Ops); j++ {
		o := &q.Ops[j]
		fix(&o.A)
		fix(&o.B)
		fix(&o.C)
		fix(&o.D)
	}
	return q
}

// Shrink greedily minimises a failing program: fails(p) must report whether the
// (valid) program still shows the failure. At most budget calls of fails are made.
func Shrink(p *Program, budget int, fails func(*Program) bool) *Program {
	best := p.clone()
	try := func(q *Program) bool {
		if budget <= 0 || q.Validate() != nil {
			return false
		}
		budget--
		if fails(q) {
			best = q
			return true
		}
		return false
	}
	for changed := true; changed && budget > 0; {
		changed = false
		// drop ops, last first
		for i := len(best.Ops) - 1; i >= 0 && budget > 0; i-- {
			if i < len(best.Ops) && try(best.without(i)) {
				changed = true
			}
		}
		// smaller geometry
		for d := 0; d < 3 && budget > 0; d++ {
			for _, f := range []func(q *Program){
				func(q *Program) { q.Geo.Grid[d] = uint32(q.Geo.WG[d]) },
				func(q *Program) { q.Geo.Grid[d], q.Geo.WG[d] = 1, 1 },
				func(q *Program) {
					if q.Geo.WG[d] > 64 {
						full := q.Geo.Grid[d]%uint32(q.Geo.WG[d]) == 0
						n := (q.Geo.Grid[d] + uint32(q.Geo.WG[d]) - 1) / uint32(q.Geo.WG[d])
						q.Geo.WG[d] = 64
						if full {
							q.Geo.Grid[d] = n * 64
						}
					}
				},
				func(q *Program) {
					if q.Geo.Grid[d] > uint32(q.Geo.WG[d]) {
						q.Geo.Grid[d] -= uint32(q.Geo.WG[d])
					}
				},
			} {
				q := best.clone()
				f(q)
				if q.Geo != best.Geo && try(q) {
					changed = true
				}
			}
		}
		// simpler scalars
		for _, f := range []func(q *Program){
			func(q *Program) {
				q.Slots = 1
				for i := range q.Ops {
					q.Ops[i].Slot = 0
				}
			},
			func(q *Program) { q.SmemStyle = 0 },
			func(q *Program) { q.FinalWait = true },
			func(q *Program) { q.InLog2 = [2]int{4, 4} },
		} {
			q := best.clone()
			f(q)
			b1, _ := json.Marshal(q)
			b2, _ := json.Marshal(best)
			if string(b1) != string(b2) && try(q) {
				changed = true
			}
		}
		// simpler ops
		for i := range best.Ops {
			o := best.Ops[i]
			var cands []Op
			if o.Wait != 1 && o.Kind == "load" {
				c := o
				c.Wait = 1
				cands = append(cands, c)
			}
			if o.WGDep {
				c := o
				c.WGDep = false
				cands = append(cands, c)
			}
			if o.Kind == "loop" && o.WaveDep > 0 {
				c := o
				c.WaveDep = 0
				cands = append(cands, c)
			}
			if o.Kind == "sload" && o.Rep > 2 {
				c := o
				c.Rep = o.Rep / 2
				cands = append(cands, c)
			}
			if o.Kind == "load" && o.Sub != "" {
				c := o
				c.Sub, c.Imm = "", 0
				cands = append(cands, c)
			}
			if o.Kind == "load" && o.N > 1 {
				c := o
				c.N, c.Imm = 0, 0
				cands = append(cands, c)
			}
			if o.AImm && o.Imm != 0 && o.Kind != "exit" && o.Kind != "sload" {
				c := o
				c.Imm = 0
				cands = append(cands, c)
			}
			for _, r := range []*int{&o.A, &o.B, &o.C, &o.D} {
				_ = r
			}
			for _, c := range cands {
				if budget <= 0 {
					break
				}
				q := best.clone()
				q.Ops[i] = c
				if try(q) {
					changed = true
					break
				}
			}
		}
	}
	return best
}
