package kgen

import (
	"fmt"

	"verif/lib/kasm"
)

// Compiled is the machine-level form of a program.
type Compiled struct {
	Code      []byte
	NumVGPR   int
	NumSGPR   int
	LDSBytes  int
	KernargSz int
	PackedIDs bool
	NoWGID    [3]bool
	// Listing holds one line per emitted instruction group (for replay messages).
	Listing []string
}

// Register plan (see package comment of compile()).
const (
	vGX, vGY, vGZ, vGID, vLID = 3, 4, 5, 6, 7
	vAddrA, vAddrB            = 8, 10 // 64-bit address pairs, used alternately
	vT0, vT1                  = 12, 13
	vFirstValue               = 14

	sKernarg  = 0
	sWGX      = 2
	sOut0     = 8
	sIn0      = 12
	sT0, sT1  = 16, 17
	sSaveExec = 20
	sCtr      = 22
	sTrip     = 23
	sGridX    = 24
	sGridY    = 25
	sLoad     = 32 // s[32:39]: destination of generated scalar loads
	numSGPR   = 40
	sBurst    = 40 // s40..s63: registers of a scalar-load burst
)

type compiler struct {
	p           *Program
	a           *kasm.Asm
	reg         []int       // VGPR of each value
	pending     map[int]int // value -> sequence number of the vector-memory op that produces it
	issued      []bool      // per issued vector-memory op: true = store
	nextV       int
	addrSel     int
	nLDS        int
	label       int
	list        []string
	waitStyleOf map[int]int
	sburst      bool
	fold        map[int]int
}

func (c *compiler) note(format string, args ...any) {
	c.list = append(c.list, fmt.Sprintf("%04x: ", c.a.PC())+fmt.Sprintf(format, args...))
}

func (c *compiler) newLabel(prefix string) string {
	c.label++
	return fmt.Sprintf("%s%d", prefix, c.label)
}

func imm(v uint32) kasm.Operand { return kasm.Imm(int32(v)) }

// use makes sure value r is available in its register (waits for a pending load).
func (c *compiler) use(r int) kasm.Operand {
	if seq, ok := c.pending[r]; ok {
		c.waitFor(seq, c.waitStyleOf[r])
		delete(c.pending, r)
	}
	if n := c.fold[r]; n > 1 {
		// a wide load left its dwords in consecutive registers: fold them into the first
		for j := 1; j < n; j++ {
			c.a.VOP2(kasm.OpVXorB32, kasm.V(c.reg[r]), kasm.V(c.reg[r]+j), kasm.V(c.reg[r]))
		}
		delete(c.fold, r)
	}
	return kasm.V(c.reg[r])
}

// waitFor emits the s_waitcnt that guarantees completion of vector-memory op seq.
func (c *compiler) waitFor(seq int, style int) {
	later := len(c.issued) - seq - 1
	storeLater := false
	for _, st := range c.issued[seq+1:] {
		if st {
			storeLater = true
		}
	}
	n := 0
	if style == 0 && !storeLater && later <= 15 {
		// loads return in order: at most `later` operations may still be outstanding
		n = later
	}
	c.note("s_waitcnt vmcnt(%d)", n)
	c.a.Waitcnt(n, 7, 15)
	if n == 0 {
		// everything issued so far is complete
		for r := range c.pending {
			delete(c.pending, r)
		}
	} else {
		for r, s := range c.pending {
			if s <= seq {
				delete(c.pending, r)
			}
		}
	}
}

func (c *compiler) addrPair() int {
	c.addrSel ^= 1
	if c.addrSel == 1 {
		return vAddrA
	}
	return vAddrB
}

// address computes base + 4*idx into a fresh address pair and returns it.
func (c *compiler) address(sBase int, idx kasm.Operand) kasm.Operand {
	a := c.a
	p := c.addrPair()
	a.VOP2(kasm.OpVLshlrevB32, kasm.V(vT0), kasm.Imm(2), idx)
	a.VOP2(kasm.OpVAddU32, kasm.V(p), kasm.S(sBase), kasm.V(vT0))
	a.VOP1(kasm.OpVMovB32, kasm.V(p+1), kasm.S(sBase+1))
	a.VOP2(kasm.OpVAddcU32, kasm.V(p+1), kasm.Imm(0), kasm.V(p+1))
	return kasm.V(p)
}

func (c *compiler) storeIndex(slot int) kasm.Operand {
	a := c.a
	if c.p.Slots == 1 {
		return kasm.V(vGID)
	}
	a.VOP3a(kasm.OpVMulLoU32, kasm.V(vT1), kasm.V(vGID), imm(uint32(c.p.Slots)), kasm.Operand{})
	if slot != 0 {
		a.VOP2(kasm.OpVAddU32, kasm.V(vT1), imm(uint32(slot)), kasm.V(vT1))
	}
	return kasm.V(vT1)
}

func (c *compiler) src0(o Op) kasm.Operand {
	if o.AImm {
		return imm(o.Imm)
	}
	return c.use(o.A)
}

// bin emits dst = op(s0, s1) where s1 must be a VGPR.
func (c *compiler) bin(op string, dst, s0, s1 kasm.Operand) {
	a := c.a
	if op == "mullo" {
		if s0.HasLit {
			a.VOP1(kasm.OpVMovB32, kasm.V(vT0), s0)
			s0 = kasm.V(vT0)
		}
		a.VOP3a(kasm.OpVMulLoU32, dst, s0, s1, kasm.Operand{})
		return
	}
	a.VOP2(vop2Of[op], dst, s0, s1)
}

func (c *compiler) newValue() (int, kasm.Operand) {
	r := len(c.reg)
	c.reg = append(c.reg, c.nextV)
	c.nextV++
	return r, kasm.V(c.reg[r])
}

// Compile translates the program into GCN3 machine code.
//
// VGPRs: v0-v2 work-item id (ABI), v3-v5 global x/y/z, v6 flat global id, v7
// flat local id, v8-v11 two address pairs, v12-v13 scratch, v14.. one register
// per value. SGPRs: s[0:1] kernarg pointer, s2-s4 work-group id, s[8:15] the four
// buffer pointers, s16-s17 scratch, s[20:21] saved EXEC, s22/s23 loop counter and
// trip count, s24/s25 grid x/y.
func (p *Program) Compile() (*Compiled, error) {
	if err := p.Validate(); err != nil {
		return nil, err
	}
	c := &compiler{p: p, a: kasm.New(), pending: map[int]int{}, nextV: vFirstValue}
	c.a.GFX9 = p.GFX9
	c.waitStyleOf = map[int]int{}
	c.fold = map[int]int{}
	a := c.a
	g := p.Geo
	usesLDS := false
	for _, o := range p.Ops {
		if o.Kind == "lds" {
			usesLDS = true
		}
	}
	// prologue: kernel arguments {Out0, Out1, In0, In1}
	switch p.SmemStyle {
	case 1:
		for i := 0; i < 4; i++ {
			a.SMEM(kasm.OpSLoadDwordx2, kasm.S(sOut0+2*i), kasm.S(sKernarg), uint32(8*i))
		}
	case 2:
		a.SMEM(kasm.OpSLoadDwordx8, kasm.S(sOut0), kasm.S(sKernarg), 0)
	default:
		a.SMEM(kasm.OpSLoadDwordx4, kasm.S(sOut0), kasm.S(sKernarg), 0)
		a.SMEM(kasm.OpSLoadDwordx4, kasm.S(sIn0), kasm.S(sKernarg), 16)
	}
	if usesLDS {
		a.SOP1(kasm.OpSMovB32, kasm.M0, kasm.Imm(-1))
	}
	if p.NoWGID != [3]bool{} {
		// the enabled work-group ids arrive in consecutive SGPRs from sWGX on; move them to
		// s2 (x), s3 (y), s4 (z), highest first, and clear the disabled ones
		src := [3]int{-1, -1, -1}
		n := 0
		for d := 0; d < 3; d++ {
			if !p.NoWGID[d] {
				src[d] = sWGX + n
				n++
			}
		}
		for d := 2; d >= 0; d-- {
			switch {
			case src[d] < 0:
				a.SOP1(kasm.OpSMovB32, kasm.S(sWGX+d), kasm.Imm(0))
			case src[d] != sWGX+d:
				a.SOP1(kasm.OpSMovB32, kasm.S(sWGX+d), kasm.S(src[d]))
			}
		}
	}
	if p.PackedIDs {
		// v0 = x | y<<10 | z<<20 (code object v5): unpack into v0, v1, v2
		a.VOP2(kasm.OpVLshrrevB32, kasm.V(1), imm(10), kasm.V(0))
		a.VOP2(kasm.OpVAndB32, kasm.V(1), kasm.Lit(0x3ff), kasm.V(1))
		a.VOP2(kasm.OpVLshrrevB32, kasm.V(2), imm(20), kasm.V(0))
		a.VOP2(kasm.OpVAndB32, kasm.V(2), kasm.Lit(0x3ff), kasm.V(2))
		a.VOP2(kasm.OpVAndB32, kasm.V(0), kasm.Lit(0x3ff), kasm.V(0))
	}
	// global ids
	for d := 0; d < 3; d++ {
		a.SOP2(kasm.OpSMulI32, kasm.S(sT0), kasm.S(sWGX+d), imm(uint32(g.WG[d])))
		a.VOP2(kasm.OpVAddU32, kasm.V(vGX+d), kasm.S(sT0), kasm.V(d))
	}
	a.SOP1(kasm.OpSMovB32, kasm.S(sGridX), imm(g.Grid[0]))
	a.SOP1(kasm.OpSMovB32, kasm.S(sGridY), imm(g.Grid[1]))
	a.VOP3a(kasm.OpVMulLoU32, kasm.V(vGID), kasm.V(vGZ), kasm.S(sGridY), kasm.Operand{})
	a.VOP2(kasm.OpVAddU32, kasm.V(vGID), kasm.V(vGY), kasm.V(vGID))
	a.VOP3a(kasm.OpVMulLoU32, kasm.V(vGID), kasm.V(vGID), kasm.S(sGridX), kasm.Operand{})
	a.VOP2(kasm.OpVAddU32, kasm.V(vGID), kasm.V(vGX), kasm.V(vGID))
	// flat local id with the nominal work-group sizes
	a.SOP1(kasm.OpSMovB32, kasm.S(sT0), imm(uint32(g.WG[1])))
	a.SOP1(kasm.OpSMovB32, kasm.S(sT1), imm(uint32(g.WG[0])))
	a.VOP3a(kasm.OpVMulLoU32, kasm.V(vLID), kasm.V(2), kasm.S(sT0), kasm.Operand{})
	a.VOP2(kasm.OpVAddU32, kasm.V(vLID), kasm.V(1), kasm.V(vLID))
	a.VOP3a(kasm.OpVMulLoU32, kasm.V(vLID), kasm.V(vLID), kasm.S(sT1), kasm.Operand{})
	a.VOP2(kasm.OpVAddU32, kasm.V(vLID), kasm.V(0), kasm.V(vLID))
	c.note("prologue done; s_waitcnt lgkmcnt(0)")
	a.Waitcnt(15, 7, 0)
	c.reg = []int{vGID, vLID, vGX, vGY, vGZ}

	wgItems := uint32(g.WGItems())
	for i, o := range p.Ops {
		c.note("op %d: %s %s%s", i, o.Kind, o.Op, o.Cmp)
		switch o.Kind {
		case "const":
			_, dst := c.newValue()
			a.VOP1(kasm.OpVMovB32, dst, imm(o.Imm))
		case "bin":
			s0, s1 := c.src0(o), c.use(o.B)
			_, dst := c.newValue()
			c.bin(o.Op, dst, s0, s1)
		case "sel":
			s0, s1 := c.src0(o), c.use(o.B)
			t, f := c.use(o.C), c.use(o.D)
			_, dst := c.newValue()
			a.VOPC(vopcOf[o.Cmp], s0, s1)
			a.VOP2(kasm.OpVCndmaskB32, dst, f, t)
		case "if", "ifload":
			s0, s1 := c.src0(o), c.use(o.B)
			x, y := c.use(o.C), c.use(o.D)
			r, dst := c.newValue()
			skip := c.newLabel("skip")
			a.VOP1(kasm.OpVMovB32, dst, y)
			a.VOPC(vopcOf[o.Cmp], s0, s1)
			a.SOP1(kasm.OpSAndSaveexecB64, kasm.S(sSaveExec), kasm.VCC)
			a.Branch(kasm.OpSCbranchExecz, skip)
			if o.Kind == "if" {
				c.bin(o.Op, dst, x, dst)
			} else {
				a.VOP2(kasm.OpVAndB32, kasm.V(vT1), imm(uint32(1)<<p.InLog2[o.K]-1), x)
				ad := c.address(sIn0+2*o.K, kasm.V(vT1))
				a.FLAT(kasm.OpFlatLoadDword, dst, ad, kasm.None)
				c.issued = append(c.issued, false)
				c.pending[r] = len(c.issued) - 1
			}
			a.Label(skip)
			if o.Kind == "ifload" {
				// the wait must sit outside the skipped region: a wavefront whose
				// EXEC became zero jumps over everything up to the label
				c.waitFor(len(c.issued)-1, 1)
			}
			a.SOP1(kasm.OpSMovB64, kasm.EXEC, kasm.S(sSaveExec))
		case "ifstore":
			s0, s1 := c.src0(o), c.use(o.B)
			x := c.use(o.C)
			skip := c.newLabel("skip")
			a.VOPC(vopcOf[o.Cmp], s0, s1)
			a.SOP1(kasm.OpSAndSaveexecB64, kasm.S(sSaveExec), kasm.VCC)
			a.Branch(kasm.OpSCbranchExecz, skip)
			ad := c.address(sOut0+2*o.K, c.storeIndex(o.Slot))
			a.FLAT(kasm.OpFlatStoreDword, kasm.None, ad, x)
			c.issued = append(c.issued, true)
			a.Label(skip)
			a.SOP1(kasm.OpSMovB64, kasm.EXEC, kasm.S(sSaveExec))
		case "load":
			idx := c.use(o.A)
			r, dst := c.newValue()
			flatOp := kasm.OpFlatLoadDword
			if o.N > 1 {
				c.nextV += o.N - 1 // the value owns N consecutive registers
				c.fold[r] = o.N
				flatOp = map[int]int{2: kasm.OpFlatLoadDwordx2, 4: kasm.OpFlatLoadDwordx4}[o.N]
				a.VOP2(kasm.OpVAndB32, kasm.V(vT1), imm(uint32(1)<<(p.InLog2[o.K]-1)-1), idx)
				if o.Imm != 0 {
					a.VOP2(kasm.OpVAddU32, kasm.V(vT1), imm(o.Imm), kasm.V(vT1))
				}
			} else {
				a.VOP2(kasm.OpVAndB32, kasm.V(vT1), imm(uint32(1)<<p.InLog2[o.K]-1), idx)
			}
			ad := c.address(sIn0+2*o.K, kasm.V(vT1))
			if o.Sub != "" {
				flatOp = map[string]int{"u8": kasm.OpFlatLoadUbyte, "i8": kasm.OpFlatLoadSbyte, "u16": kasm.OpFlatLoadUshort}[o.Sub]
				if o.Imm != 0 {
					// element addresses are 4-byte aligned: adding 1-3 cannot carry
					a.VOP2(kasm.OpVAddU32, ad, imm(o.Imm), ad)
				}
			}
			a.FLAT(flatOp, dst, ad, kasm.None)
			c.issued = append(c.issued, false)
			c.pending[r] = len(c.issued) - 1
			c.waitStyleOf[r] = o.Wait
			if o.Wait == 1 {
				c.waitFor(len(c.issued)-1, 1)
				delete(c.pending, r)
			}
		case "sload":
			_, dst := c.newValue()
			smemOp := map[int]int{1: kasm.OpSLoadDword, 2: kasm.OpSLoadDwordx2, 4: kasm.OpSLoadDwordx4, 8: kasm.OpSLoadDwordx8}[o.N]
			if o.Rep > 1 {
				c.sburst = true
				for j := 0; j < o.Rep; j++ {
					a.SMEM(kasm.OpSLoadDword, kasm.S(sBurst+j), kasm.S(sIn0+2*o.K), o.Imm+uint32(4*j))
				}
				a.Waitcnt(15, 7, 0)
				a.SOP1(kasm.OpSMovB32, kasm.S(sLoad), kasm.S(sBurst))
				for j := 1; j < o.Rep; j++ {
					a.SOP2(kasm.OpSXorB32, kasm.S(sLoad), kasm.S(sLoad), kasm.S(sBurst+j))
				}
				a.VOP1(kasm.OpVMovB32, dst, kasm.S(sLoad))
				break
			}
			a.SMEM(smemOp, kasm.S(sLoad), kasm.S(sIn0+2*o.K), o.Imm)
			a.Waitcnt(15, 7, 0)
			for j := 1; j < o.N; j++ {
				a.SOP2(kasm.OpSXorB32, kasm.S(sLoad), kasm.S(sLoad), kasm.S(sLoad+j))
			}
			a.VOP1(kasm.OpVMovB32, dst, kasm.S(sLoad))
		case "lds":
			x := c.use(o.A)
			_, dst := c.newValue()
			base := uint32(c.nLDS) * wgItems * 4
			c.nLDS++
			a.VOP2(kasm.OpVLshlrevB32, kasm.V(vT0), kasm.Imm(2), kasm.V(vLID))
			a.DS(kasm.OpDsWriteB32, kasm.None, kasm.V(vT0), x, kasm.None, uint8(base), uint8(base>>8))
			a.Waitcnt(15, 7, 0)
			a.SOPP(kasm.OpSBarrier, 0)
			if o.Intra {
				a.VOP2(kasm.OpVAddU32, kasm.V(vT1), imm(o.Imm), kasm.V(vLID))
				a.VOP2(kasm.OpVAndB32, kasm.V(vT1), kasm.Imm(63), kasm.V(vT1))
				a.VOP2(kasm.OpVAndB32, kasm.V(vT0), imm(^uint32(63)), kasm.V(vLID))
				a.VOP2(kasm.OpVOrB32, kasm.V(vT1), kasm.V(vT0), kasm.V(vT1))
			} else {
				a.VOP2(kasm.OpVAddU32, kasm.V(vT1), imm(o.Imm), kasm.V(vLID))
				a.VOP2(kasm.OpVSubrevU32, kasm.V(vT0), imm(wgItems), kasm.V(vT1))
				a.VOP2(kasm.OpVMinU32, kasm.V(vT1), kasm.V(vT0), kasm.V(vT1))
			}
			a.VOP2(kasm.OpVLshlrevB32, kasm.V(vT1), kasm.Imm(2), kasm.V(vT1))
			a.DS(kasm.OpDsReadB32, dst, kasm.V(vT1), kasm.None, kasm.None, uint8(base), uint8(base>>8))
			a.Waitcnt(15, 7, 0)
			// lgkmcnt(0) also covers every FLAT operation issued so far
			// (FLAT increments both counters), but only vmcnt is relied upon.
		case "loop":
			init, x := c.use(o.A), c.use(o.B)
			_, dst := c.newValue()
			top, end := c.newLabel("loop"), c.newLabel("end")
			a.VOP1(kasm.OpVMovB32, dst, init)
			a.SOP1(kasm.OpSMovB32, kasm.S(sCtr), kasm.Imm(0))
			a.SOP1(kasm.OpSMovB32, kasm.S(sTrip), imm(o.Imm))
			if o.WGDep {
				a.SOP2(kasm.OpSAndB32, kasm.S(sT0), kasm.S(sWGX), kasm.Imm(1))
				a.SOP2(kasm.OpSAddU32, kasm.S(sTrip), kasm.S(sTrip), kasm.S(sT0))
			}
			if o.WaveDep > 0 {
				a.VOP1S(kasm.OpVReadfirstlaneB32, kasm.S(sT0), kasm.V(vLID))
				a.SOP2(kasm.OpSLshrB32, kasm.S(sT0), kasm.S(sT0), kasm.Imm(6))
				a.SOPC(kasm.OpSCmpEqU32, kasm.S(sT0), kasm.Imm(0))
				a.SOP2(kasm.OpSCselectB32, kasm.S(sT0), imm(uint32(o.WaveDep)), kasm.Imm(0))
				a.SOP2(kasm.OpSAddU32, kasm.S(sTrip), kasm.S(sTrip), kasm.S(sT0))
			}
			a.SOPC(kasm.OpSCmpLtU32, kasm.S(sCtr), kasm.S(sTrip))
			a.Branch(kasm.OpSCbranchScc0, end)
			a.Label(top)
			c.bin(o.Op, dst, x, dst)
			c.bin(o.Op2, dst, kasm.S(sCtr), dst)
			a.SOP2(kasm.OpSAddU32, kasm.S(sCtr), kasm.S(sCtr), kasm.Imm(1))
			a.SOPC(kasm.OpSCmpLtU32, kasm.S(sCtr), kasm.S(sTrip))
			a.Branch(kasm.OpSCbranchScc1, top)
			a.Label(end)
		case "store":
			x := c.use(o.A)
			ad := c.address(sOut0+2*o.K, c.storeIndex(o.Slot))
			a.FLAT(kasm.OpFlatStoreDword, kasm.None, ad, x)
			c.issued = append(c.issued, true)
		case "exit":
			cont := c.newLabel("cont")
			a.VOP1S(kasm.OpVReadfirstlaneB32, kasm.S(sT0), kasm.V(vLID))
			a.SOP2(kasm.OpSLshrB32, kasm.S(sT0), kasm.S(sT0), kasm.Imm(6))
			a.SOP2(kasm.OpSAndB32, kasm.S(sT0), kasm.S(sT0), imm(o.Imm>>8&0xff))
			a.SOPC(kasm.OpSCmpEqU32, kasm.S(sT0), imm(o.Imm&0xff))
			a.Branch(kasm.OpSCbranchScc0, cont)
			a.SOPP(kasm.OpSEndpgm, 0)
			a.Label(cont)
		}
	}
	if p.FinalWait {
		a.Waitcnt(0, 7, 15)
	}
	if p.TrailSLoad != 0 {
		c.note("trailing s_load_dword s%d, not waited for", p.TrailSLoad)
		maxOff := uint32(p.OutLen()*4-4) &^ 3
		a.SOP2(kasm.OpSLshlB32, kasm.S(sT0), kasm.S(sWGX), kasm.Imm(6))
		a.SOP2(kasm.OpSMinU32, kasm.S(sT0), kasm.S(sT0), kasm.Lit(maxOff))
		a.SOP2(kasm.OpSAddU32, kasm.S(sT0), kasm.S(sOut0), kasm.S(sT0))
		a.SOP2(kasm.OpSAddcU32, kasm.S(sT1), kasm.S(sOut0+1), kasm.Imm(0))
		a.SMEM(kasm.OpSLoadDword, kasm.S(p.TrailSLoad), kasm.S(sT0), 0)
	}
	c.note("s_endpgm")
	a.SOPP(kasm.OpSEndpgm, 0)
	code, err := a.Bytes()
	if err != nil {
		return nil, err
	}
	if c.nextV > 252 {
		return nil, fmt.Errorf("program needs %d vector registers", c.nextV)
	}
	nv := (c.nextV+3)/4*4 + p.PadVGPR/4*4
	if nv > 256 {
		nv = 256
	}
	ns := numSGPR + p.PadSGPR
	if c.sburst && ns < sBurst+MaxSBurst {
		ns = sBurst + MaxSBurst
	}
	if ns > 102 {
		ns = 102
	}
	return &Compiled{
		Code:      code,
		NumVGPR:   nv,
		NumSGPR:   ns,
		LDSBytes:  c.nLDS * int(wgItems) * 4,
		KernargSz: 32,
		PackedIDs: p.PackedIDs,
		NoWGID:    p.NoWGID,
		Listing:   c.list,
	}, nil
}
