package kgen

import (
	"fmt"

	"github.com/sarchlab/mgpusim/v4/amd/driver"
	"github.com/sarchlab/mgpusim/v4/amd/insts"

	"verif/lib/plat"
)

// CodeObject wraps compiled code into the structure the driver launches
// (V3-style metadata computed from what the program uses).
func (c *Compiled) CodeObject() *insts.KernelCodeObject {
	meta := &insts.KernelCodeObjectMeta{
		KernargSegmentByteSize:      uint64(c.KernargSz),
		GroupSegmentByteSize:        uint32(c.LDSBytes),
		KernelCodeEntryByteOffset:   0,
		EnableSgprKernargSegmentPtr: true,
		WFSgprCount:                 uint16(c.NumSGPR),
		WIVgprCount:                 uint16(c.NumVGPR),
		// user SGPRs = 2 (kernarg pointer); work-group id x,y,z; work-item id x,y,z
		ComputePgmRsrc2: 2<<1 | 1<<7 | 1<<8 | 1<<9 | 2<<11,
	}
	for d := 0; d < 3; d++ {
		if c.NoWGID[d] {
			meta.ComputePgmRsrc2 &^= 1 << uint(7+d)
		}
	}
	version := insts.CodeObjectV3
	if c.PackedIDs {
		version = insts.CodeObjectV5
	}
	return &insts.KernelCodeObject{
		KernelCodeObjectMeta: meta,
		Data:                 append([]byte(nil), c.Code...),
		Version:              version,
	}
}

// Args is the kernel argument block.
type Args struct {
	Out0, Out1, In0, In1 driver.Ptr
}

// GuardDwords is the number of guard dwords before and after each output buffer.
const GuardDwords = 64

// GuardValue is the content of guard dword i.
func GuardValue(i int) uint32 { return 0x6A6A0000 | uint32(i) }

// RunSpec says where a program runs.
type RunSpec struct {
	// GPUs lists the device ids used (1-based). One entry = plain single-GPU run.
	GPUs []int `json:"gpus"`
	// Unified creates a unified multi-GPU device over GPUs and launches on it.
	Unified bool `json:"unified,omitempty"`
	// Distribute spreads every buffer over the memories of GPUs (plain mode:
	// the kernel then runs on GPUs[0] and reaches the rest remotely).
	Distribute bool `json:"distribute,omitempty"`
	// UnifiedMemory allocates buffers as unified (CPU-resident, migrated on demand) memory.
	UnifiedMemory bool `json:"unified_memory,omitempty"`
}

// Outcome is what a run left in device memory.
type Outcome struct {
	Out      [2][]uint32
	GuardBad string // "" when all guard dwords are intact
}

// Launch runs the program once on the platform and reads the outputs back. The engine runs
// on the calling goroutine (plat.Platform.Run).
func Launch(pl *plat.Platform, p *Program, c *Compiled, rs RunSpec) (*Outcome, error) {
	return launch(pl, p, c, rs, nil)
}

// LaunchThreaded does the same through the driver's own threads: the caller must have
// called pl.Driver.Run(); the queue is drained with DrainCommandQueue after the copies in,
// after the kernel and after the copies out (three hand-offs between the application
// thread and the simulation thread).
func LaunchThreaded(pl *plat.Platform, p *Program, c *Compiled, rs RunSpec) (*Outcome, error) {
	return launch(pl, p, c, rs, func(q *driver.CommandQueue) { pl.Driver.DrainCommandQueue(q) })
}

// LaunchWith is LaunchThreaded with a caller-supplied drain function.
func LaunchWith(pl *plat.Platform, p *Program, c *Compiled, rs RunSpec, drain func(*driver.CommandQueue)) (*Outcome, error) {
	return launch(pl, p, c, rs, drain)
}

func launch(pl *plat.Platform, p *Program, c *Compiled, rs RunSpec, drain func(*driver.CommandQueue)) (*Outcome, error) {
	d := pl.Driver
	ctx := d.Init()
	dev := rs.GPUs[0]
	if rs.Unified {
		dev = d.CreateUnifiedGPU(ctx, rs.GPUs)
	}
	d.SelectGPU(ctx, dev)
	alloc := func(bytes uint64) driver.Ptr {
		var ptr driver.Ptr
		if rs.UnifiedMemory {
			ptr = d.AllocateUnifiedMemory(ctx, bytes)
		} else {
			ptr = d.AllocateMemory(ctx, bytes)
		}
		if rs.Distribute && len(rs.GPUs) > 1 && !rs.UnifiedMemory {
			d.Distribute(ctx, ptr, bytes, rs.GPUs)
		}
		return ptr
	}
	in := [2][]uint32{p.Input(0), p.Input(1)}
	var dIn, dOut [2]driver.Ptr
	outLen := p.OutLen()
	total := outLen + 2*GuardDwords
	hostOut := [2][]uint32{}
	for k := 0; k < 2; k++ {
		dIn[k] = alloc(uint64(len(in[k]) * 4))
		dOut[k] = alloc(uint64(total * 4))
		hostOut[k] = make([]uint32, total)
		for i := 0; i < GuardDwords; i++ {
			hostOut[k][i] = GuardValue(i)
			hostOut[k][GuardDwords+outLen+i] = GuardValue(GuardDwords + i)
		}
		for i := 0; i < outLen; i++ {
			hostOut[k][GuardDwords+i] = OutInit(k, i)
		}
	}
	q := d.CreateCommandQueue(ctx)
	for k := 0; k < 2; k++ {
		d.EnqueueMemCopyH2D(q, dIn[k], in[k])
		d.EnqueueMemCopyH2D(q, dOut[k], hostOut[k])
	}
	args := &Args{
		Out0: dOut[0] + GuardDwords*4, Out1: dOut[1] + GuardDwords*4,
		In0: dIn[0], In1: dIn[1],
	}
	if drain != nil {
		drain(q)
	}
	d.EnqueueLaunchKernel(q, c.CodeObject(), p.Geo.Grid, p.Geo.WG, args)
	if drain != nil {
		drain(q)
	}
	back := [2][]uint32{make([]uint32, total), make([]uint32, total)}
	for k := 0; k < 2; k++ {
		d.EnqueueMemCopyD2H(q, back[k], dOut[k])
	}
	if drain != nil {
		drain(q)
	} else if err := pl.Run(q); err != nil {
		return nil, err
	}
	o := &Outcome{}
	for k := 0; k < 2; k++ {
		o.Out[k] = back[k][GuardDwords : GuardDwords+outLen]
		for i := 0; i < GuardDwords; i++ {
			if back[k][i] != GuardValue(i) && o.GuardBad == "" {
				o.GuardBad = fmt.Sprintf("guard dword %d before output %d overwritten with 0x%08x", i, k, back[k][i])
			}
			if back[k][GuardDwords+outLen+i] != GuardValue(GuardDwords+i) && o.GuardBad == "" {
				o.GuardBad = fmt.Sprintf("guard dword %d after output %d overwritten with 0x%08x", i, k, back[k][GuardDwords+outLen+i])
			}
		}
	}
	return o, nil
}

// Compare returns "" when the outcome equals the expectation, else the first difference.
func Compare(p *Program, exp Expected, o *Outcome) string {
	if o.GuardBad != "" {
		return o.GuardBad
	}
	for k := 0; k < 2; k++ {
		for i := range exp.Out[k] {
			if o.Out[k][i] != exp.Out[k][i] {
				gid := i / p.Slots
				it := p.Geo.ItemAt(gid)
				return fmt.Sprintf("output %d, work-item gid=%d (global %v, work-group %v, local %v) slot %d: device holds 0x%08x, the program's meaning is 0x%08x (initial content 0x%08x)",
					k, gid, it.G, it.WGID, it.L, i%p.Slots, o.Out[k][i], exp.Out[k][i], OutInit(k, i))
			}
		}
	}
	return ""
}

// OnlyStaleStores reports whether every difference between the outcome and the
// expectation is a cell that holds the value of an EARLIER store of the same
// work-item to that same cell (i.e. two same-address stores took effect in the
// wrong order) and there is at least one such difference.
func OnlyStaleStores(exp Expected, o *Outcome) bool {
	if o.GuardBad != "" {
		return false
	}
	n := 0
	for k := 0; k < 2; k++ {
		for i := range exp.Out[k] {
			if o.Out[k][i] == exp.Out[k][i] {
				continue
			}
			ok := false
			for _, v := range exp.Earlier[k][i] {
				if v == o.Out[k][i] {
					ok = true
				}
			}
			if !ok {
				return false
			}
			n++
		}
	}
	return n > 0
}
