package kgen

import (
	"io"
	"log"
	"testing"

	"pgregory.net/rapid"

	"verif/lib/plat"
)

// Development aid: generated programs on the emulation platform against Eval.
func TestDevEmuVsEval(t *testing.T) {
	log.SetOutput(io.Discard)
	rapid.Check(t, func(rt *rapid.T) {
		p := GenProgram(rt, GenOpts{MaxItems: 600, MaxOps: 14, LDS: true, Partial: true, Exit: false, SubDword: true, SBurst: true, TrailSLoad: true, WaveDep: true, SparseWGIDs: true})
		c, err := p.Compile()
		if err != nil {
			rt.Fatalf("compile: %v", err)
		}
		exp := p.Eval()
		pl, err := plat.New(plat.Spec{NumGPUs: 1})
		if err != nil {
			rt.Fatal(err)
		}
		defer pl.Close()
		o, err := Launch(pl, p, c, RunSpec{GPUs: []int{1}})
		if err != nil {
			rt.Fatalf("run: %v", err)
		}
		if d := Compare(p, exp, o); d != "" {
			rt.Fatalf("%s", d)
		}
	})
}
