package kgen

import (
	"fmt"
	"io"
	"log"
	"os"
	"testing"

	"verif/lib/plat"
)

func TestDevUnified(t *testing.T) {
	if os.Getenv("KGEN_DBG3") == "" {
		t.Skip()
	}
	log.SetOutput(io.Discard)
	p := &Program{Geo: Geometry{Grid: [3]uint32{1024, 1, 1}, WG: [3]uint16{64, 1, 1}},
		Ops: []Op{{Kind: "store"}}, InLog2: [2]int{4, 4}, Slots: 1, DataSeed: 12, FinalWait: true}
	c, _ := p.Compile()
	for _, timing := range []bool{false, true} {
		pl, _ := plat.New(plat.Spec{NumGPUs: 2, Timing: timing})
		dt := pl.TraceDispatch()
		o, err := Launch(pl, p, c, RunSpec{GPUs: []int{1, 2}, Unified: true})
		if err != nil {
			t.Fatal(err)
		}
		fmt.Println(Compare(p, p.Eval(), o))
		cus := map[string]int{}
		for _, r := range dt.ByReq {
			cus[r.CU]++
		}
		fmt.Println(timing, len(dt.ByReq), cus)
		pl.Close()
	}
}
