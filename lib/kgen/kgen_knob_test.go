//go:build verif

package kgen

import (
	"testing"

	"verif/lib/plat"
)

func TestSmokeKnobs(t *testing.T) {
	p := smokeProgram()
	c, _ := p.Compile()
	exp := p.Eval()
	for _, spec := range []plat.Spec{
		{Timing: true, NumGPUs: 1, CUPerSA: 1, SAs: 1},
		{Timing: true, NumGPUs: 1, CUPerSA: 2, SAs: 2, L2KB: 64, Banks: 4},
		{Timing: true, GPUType: "mi300a", NumGPUs: 1, CUPerSA: 1, SAs: 2},
	} {
		pl, err := plat.New(spec)
		if err != nil {
			t.Fatalf("%+v: %v", spec, err)
		}
		dt := pl.TraceDispatch()
		o, err := Launch(pl, p, c, RunSpec{GPUs: []int{1}})
		pl.Close()
		if err != nil {
			t.Fatalf("%+v: %v", spec, err)
		}
		if d := Compare(p, exp, o); d != "" {
			t.Errorf("%+v: %s", spec, d)
		}
		cus := map[string]bool{}
		for _, r := range dt.ByReq {
			cus[r.CU] = true
		}
		t.Logf("%+v: %d CUs used", spec, len(cus))
	}
}
