package kgen

// Item describes one work-item of the grid from first principles.
type Item struct {
	G      [3]uint32 // global coordinates
	L      [3]uint32 // local coordinates in the work-group
	WGID   [3]uint32
	Cur    [3]uint32 // actual (possibly partial) size of this item's work-group
	LID    uint32    // flat local id with the NOMINAL work-group sizes (what the kernel computes)
	HWFlat uint32    // flat local id with the ACTUAL work-group sizes (hardware lane numbering)
}

// ItemAt returns the description of the item with flat global id gid.
func (g Geometry) ItemAt(gid int) Item {
	var it Item
	gx := uint32(gid) % g.Grid[0]
	gy := uint32(gid) / g.Grid[0] % g.Grid[1]
	gz := uint32(gid) / (g.Grid[0] * g.Grid[1])
	it.G = [3]uint32{gx, gy, gz}
	for d := 0; d < 3; d++ {
		w := uint32(g.WG[d])
		it.WGID[d] = it.G[d] / w
		it.L[d] = it.G[d] % w
		it.Cur[d] = w
		if (it.WGID[d]+1)*w > g.Grid[d] {
			it.Cur[d] = g.Grid[d] - it.WGID[d]*w
		}
	}
	it.LID = (it.L[2]*uint32(g.WG[1])+it.L[1])*uint32(g.WG[0]) + it.L[0]
	it.HWFlat = (it.L[2]*it.Cur[1]+it.L[1])*it.Cur[0] + it.L[0]
	return it
}

// gidOf returns the flat global id of global coordinates.
func (g Geometry) gidOf(x, y, z uint32) int {
	return int((z*g.Grid[1]+y)*g.Grid[0] + x)
}

// Expected is the reference outcome of a program.
type Expected struct {
	Out [2][]uint32
	// Alive[gid] is false when the item's wavefront left the kernel early.
	Alive []bool
	// Waves is the number of wavefronts of the dispatch; Exited how many exit early.
	Waves, Exited int
	// Earlier[k][cell] lists the values that earlier stores of the same work-item put
	// into output cell `cell` before the final one (only cells stored to more than once).
	Earlier [2]map[int][]uint32
}

// Eval computes the reference outcome at the level of the program's meaning.
func (p *Program) Eval() Expected {
	g := p.Geo
	n := g.Items()
	items := make([]Item, n)
	for i := range items {
		items[i] = g.ItemAt(i)
	}
	in := [2][]uint32{p.Input(0), p.Input(1)}
	var exp Expected
	for k := 0; k < 2; k++ {
		exp.Out[k] = make([]uint32, p.OutLen())
		for i := range exp.Out[k] {
			exp.Out[k][i] = OutInit(k, i)
		}
	}
	alive := make([]bool, n)
	for i := range alive {
		alive[i] = true
	}
	vals := make([][]uint32, 0, p.NumValues())
	mk := func() []uint32 { return make([]uint32, n) }
	b := [NumBuiltin][]uint32{}
	for k := range b {
		b[k] = mk()
	}
	for i, it := range items {
		b[ValGID][i] = uint32(i)
		b[ValLID][i] = it.LID
		b[ValGX][i] = it.G[0]
		b[ValGY][i] = it.G[1]
		b[ValGZ][i] = it.G[2]
	}
	for k := range b {
		vals = append(vals, b[k])
	}
	// first lane of each item's wavefront (for wavefront-uniform decisions)
	firstLID := make([]uint32, n)
	waveKey := map[[4]uint32]bool{}
	for i, it := range items {
		wave := it.HWFlat / 64
		f := wave * 64 // hardware flat id of the wavefront's first lane
		lx := f % it.Cur[0]
		ly := f / it.Cur[0] % it.Cur[1]
		lz := f / (it.Cur[0] * it.Cur[1])
		firstLID[i] = (lz*uint32(g.WG[1])+ly)*uint32(g.WG[0]) + lx
		waveKey[[4]uint32{it.WGID[0], it.WGID[1], it.WGID[2], wave}] = true
	}
	exp.Waves = len(waveKey)
	exitedWaves := map[[4]uint32]bool{}

	src0 := func(o Op, i int) uint32 {
		if o.AImm {
			return o.Imm
		}
		return vals[o.A][i]
	}
	wgItems := uint32(g.WGItems())
	written := [2]map[int]bool{{}, {}}
	exp.Earlier = [2]map[int][]uint32{{}, {}}
	note := func(k, cell int) {
		if written[k][cell] {
			exp.Earlier[k][cell] = append(exp.Earlier[k][cell], exp.Out[k][cell])
		}
		written[k][cell] = true
	}
	for _, o := range p.Ops {
		switch o.Kind {
		case "const":
			v := mk()
			for i := range v {
				v[i] = o.Imm
			}
			vals = append(vals, v)
		case "bin":
			v := mk()
			for i := range v {
				v[i] = EvalBin(o.Op, src0(o, i), vals[o.B][i])
			}
			vals = append(vals, v)
		case "sel":
			v := mk()
			for i := range v {
				if EvalCmp(o.Cmp, src0(o, i), vals[o.B][i]) {
					v[i] = vals[o.C][i]
				} else {
					v[i] = vals[o.D][i]
				}
			}
			vals = append(vals, v)
		case "if":
			v := mk()
			for i := range v {
				if EvalCmp(o.Cmp, src0(o, i), vals[o.B][i]) {
					v[i] = EvalBin(o.Op, vals[o.C][i], vals[o.D][i])
				} else {
					v[i] = vals[o.D][i]
				}
			}
			vals = append(vals, v)
		case "ifload":
			v := mk()
			mask := uint32(1)<<p.InLog2[o.K] - 1
			for i := range v {
				if EvalCmp(o.Cmp, src0(o, i), vals[o.B][i]) {
					v[i] = in[o.K][vals[o.C][i]&mask]
				} else {
					v[i] = vals[o.D][i]
				}
			}
			vals = append(vals, v)
		case "ifstore":
			for i := 0; i < n; i++ {
				if alive[i] && EvalCmp(o.Cmp, src0(o, i), vals[o.B][i]) {
					note(o.K, i*p.Slots+o.Slot)
					exp.Out[o.K][i*p.Slots+o.Slot] = vals[o.C][i]
				}
			}
		case "load":
			v := mk()
			mask := uint32(1)<<p.InLog2[o.K] - 1
			if o.N > 1 {
				half := uint32(1)<<(p.InLog2[o.K]-1) - 1
				for i := range v {
					idx := vals[o.A][i]&half + o.Imm
					x := uint32(0)
					for j := 0; j < o.N; j++ {
						x ^= in[o.K][idx+uint32(j)]
					}
					v[i] = x
				}
			} else {
				for i := range v {
					w := in[o.K][vals[o.A][i]&mask]
					switch o.Sub {
					case "u8":
						w = w >> (8 * o.Imm) & 0xff
					case "i8":
						w = uint32(int32(int8(w >> (8 * o.Imm))))
					case "u16":
						w = w >> (8 * o.Imm) & 0xffff
					}
					v[i] = w
				}
			}
			vals = append(vals, v)
		case "sload":
			v := mk()
			x := uint32(0)
			for j := 0; j < o.N+max(o.Rep-1, 0); j++ {
				x ^= in[o.K][int(o.Imm)/4+j]
			}
			for i := range v {
				v[i] = x
			}
			vals = append(vals, v)
		case "lds":
			v := mk()
			for i, it := range items {
				var pl uint32
				if o.Intra { // intra-wavefront rotation
					pl = it.LID&^63 | (it.LID+o.Imm)&63
				} else {
					pl = (it.LID + o.Imm) % wgItems
				}
				lx := pl % uint32(g.WG[0])
				ly := pl / uint32(g.WG[0]) % uint32(g.WG[1])
				lz := pl / (uint32(g.WG[0]) * uint32(g.WG[1]))
				pg := g.gidOf(it.WGID[0]*uint32(g.WG[0])+lx, it.WGID[1]*uint32(g.WG[1])+ly, it.WGID[2]*uint32(g.WG[2])+lz)
				v[i] = vals[o.A][pg]
			}
			vals = append(vals, v)
		case "loop":
			v := mk()
			for i, it := range items {
				trip := o.Imm
				if o.WGDep {
					trip += it.WGID[0] & 1
				}
				if o.WaveDep > 0 && firstLID[i]>>6 == 0 {
					trip += uint32(o.WaveDep)
				}
				acc := vals[o.A][i]
				for c := uint32(0); c < trip; c++ {
					acc = EvalBin(o.Op, vals[o.B][i], acc)
					acc = EvalBin(o.Op2, c, acc)
				}
				v[i] = acc
			}
			vals = append(vals, v)
		case "store":
			for i := 0; i < n; i++ {
				if alive[i] {
					note(o.K, i*p.Slots+o.Slot)
					exp.Out[o.K][i*p.Slots+o.Slot] = vals[o.A][i]
				}
			}
		case "exit":
			m, val := o.Imm>>8&0xff, o.Imm&0xff
			for i, it := range items {
				if alive[i] && (firstLID[i]>>6)&m == val {
					alive[i] = false
					exitedWaves[[4]uint32{it.WGID[0], it.WGID[1], it.WGID[2], it.HWFlat / 64}] = true
				}
			}
		}
	}
	exp.Alive = alive
	exp.Exited = len(exitedWaves)
	return exp
}
