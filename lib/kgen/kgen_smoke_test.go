package kgen

import (
	"testing"

	"verif/lib/plat"
)

func smokeProgram() *Program {
	return &Program{
		Geo:    Geometry{Grid: [3]uint32{200, 3, 1}, WG: [3]uint16{64, 2, 1}},
		InLog2: [2]int{6, 8}, Slots: 2, DataSeed: 7, SmemStyle: 0,
		Ops: []Op{
			{Kind: "const", Imm: 0x12345},
			{Kind: "bin", Op: "add", A: ValGID, B: 5},
			{Kind: "load", A: ValGID, K: 0},
			{Kind: "load", A: 6, K: 1, Wait: 0},
			{Kind: "bin", Op: "xor", A: 7, B: 8},
			{Kind: "sel", Cmp: "ltu", A: ValGX, B: ValLID, C: 9, D: 6},
			{Kind: "loop", Op: "add", Op2: "xor", A: 10, B: ValGX, Imm: 3, WGDep: true},
			{Kind: "if", Cmp: "gtu", Op: "mullo", AImm: true, Imm: 100, B: ValGX, C: 11, D: 9},
			{Kind: "ifload", Cmp: "equ", AImm: true, Imm: 1, B: ValGY, C: ValGID, D: 12, K: 1},
			{Kind: "store", A: 12, K: 0, Slot: 0},
			{Kind: "ifstore", Cmp: "neu", AImm: true, Imm: 0, B: ValGY, C: 13, K: 1, Slot: 1},
			{Kind: "store", A: 13, K: 0, Slot: 1},
			{Kind: "store", A: 11, K: 1, Slot: 0},
		},
	}
}

func TestSmokeEmuAndTiming(t *testing.T) {
	p := smokeProgram()
	c, err := p.Compile()
	if err != nil {
		t.Fatal(err)
	}
	exp := p.Eval()
	for _, spec := range []plat.Spec{{NumGPUs: 1}, {Timing: true, NumGPUs: 1}, {Timing: true, GPUType: "mi300a", NumGPUs: 1}} {
		pl, err := plat.New(spec)
		if err != nil {
			t.Fatal(err)
		}
		o, err := Launch(pl, p, c, RunSpec{GPUs: []int{1}})
		pl.Close()
		if err != nil {
			t.Fatalf("%+v: %v", spec, err)
		}
		if diff := Compare(p, exp, o); diff != "" {
			t.Errorf("%+v: %s", spec, diff)
		}
	}
}
