package kgen

import (
	"encoding/binary"
	"fmt"
	"io"
	"log"
	"os"
	"testing"

	"github.com/sarchlab/akita/v4/mem/mem"
	"github.com/sarchlab/akita/v4/sim"

	"verif/lib/plat"
)

type wlog struct {
	eng   sim.Engine
	lines []string
	addrs map[string]map[uint64]bool // port -> addresses of interest
}

func (w *wlog) Func(ctx sim.HookCtx) {
	if ctx.Pos != sim.HookPosPortMsgRecvd {
		return
	}
	req, ok := ctx.Item.(*mem.WriteReq)
	if !ok {
		return
	}
	port := ctx.Domain.(sim.Port).Name()
	hit := false
	for off := 0; off+8 <= len(req.Data); off += 4 {
		if binary.LittleEndian.Uint32(req.Data[off:]) == 0x3c0 && binary.LittleEndian.Uint32(req.Data[off+4:]) == 0x3c1 {
			if w.addrs[port] == nil {
				w.addrs[port] = map[uint64]bool{}
			}
			w.addrs[port][req.Address+uint64(off)] = true
			hit = true
		}
	}
	for a := range w.addrs[port] {
		if req.Address <= a && a < req.Address+uint64(len(req.Data)) {
			hit = true
		}
	}
	// zero writes covering a known address are interesting too, but the address is only known after the
	// gid write was seen; log every write with its address and first dwords and filter afterwards
	first := uint32(0)
	if len(req.Data) >= 4 {
		first = binary.LittleEndian.Uint32(req.Data)
	}
	w.lines = append(w.lines, fmt.Sprintf("%.9f %s addr=0x%x len=%d first=0x%x hit=%v id=%s", float64(w.eng.CurrentTime())*1e6, port, req.Address, len(req.Data), first, hit, req.ID))
}

func TestDevStoreOrder(t *testing.T) {
	if os.Getenv("KGEN_DBG2") == "" {
		t.Skip()
	}
	log.SetOutput(io.Discard)
	p := &Program{Geo: Geometry{Grid: [3]uint32{16384, 1, 1}, WG: [3]uint16{256, 1, 1}},
		Ops: []Op{{Kind: "store", A: 3}, {Kind: "store"}}, InLog2: [2]int{4, 4}, Slots: 1, DataSeed: 12, FinalWait: true}
	c, _ := p.Compile()
	pl, _ := plat.New(plat.Spec{NumGPUs: 1, Timing: true, GPUType: "mi300a"})
	defer pl.Close()
	w := &wlog{eng: pl.Engine, addrs: map[string]map[uint64]bool{}}
	for _, comp := range pl.Sim.Components() {
		for _, port := range comp.Ports() {
			port.AcceptHook(w)
		}
	}
	o, err := Launch(pl, p, c, RunSpec{GPUs: []int{1}})
	if err != nil {
		t.Fatal(err)
	}
	fmt.Println(Compare(p, p.Eval(), o))
	f, _ := os.Create("/tmp/dbg/writes.log")
	for _, l := range w.lines {
		fmt.Fprintln(f, l)
	}
	f.Close()
	for port, as := range w.addrs {
		for a := range as {
			fmt.Printf("port %s addr 0x%x\n", port, a)
		}
	}
}
