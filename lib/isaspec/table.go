package isaspec

import (
	"fmt"
	"sort"

	"verif/lib/isaenc"
)

// OpType describes how an operand is interpreted (drives state generation in
// the harness and documents operand widths).
type OpType uint8

// Operand types.
const (
	TNone   OpType = iota
	TB32           // 32 raw bits / integer
	TI32           // signed 32-bit integer (boundary values matter)
	TU32           // unsigned 32-bit integer
	TSh            // shift count / bit index (small numbers, 31/32/63/64 matter)
	TBF            // packed bit-field descriptor (offset in low bits, width in bits 16..22)
	TF32           // FP32
	TF16           // FP16 in the low half
	TB16           // 16-bit integer in the low half
	TB64           // 64 raw bits / integer (register pair)
	TF64           // FP64 (register pair)
	TMask          // 64-bit lane mask (SGPR pair / VCC)
	TB96           // 3 dwords
	TB128          // 4 dwords
	TAddr64        // 64-bit address (register pair)
	TAddr32        // 32-bit LDS address or 32-bit offset
	TU24           // 24-bit unsigned in a dword
	TI24           // 24-bit signed in a dword
	TClass         // v_cmp_class mask
	TPkF32         // two FP32 values in a register pair
)

// Dwords returns the number of 32-bit registers an operand of the type spans.
func (t OpType) Dwords() int {
	switch t {
	case TNone:
		return 0
	case TB64, TF64, TMask, TAddr64, TPkF32:
		return 2
	case TB96:
		return 3
	case TB128:
		return 4
	}
	return 1
}

// IsFloat reports whether abs/neg/clamp/omod modifiers are meaningful.
func (t OpType) IsFloat() bool { return t == TF32 || t == TF64 || t == TF16 }

// Info describes one instruction.
type Info struct {
	Name string
	// Operand types. For scalar formats Src[0..1] are SSRC0/1; for vector
	// formats SRC0/1/2. Dst is the (vector or scalar) destination; SDst the
	// additional scalar destination of VOP3b / the implicit VCC of VOP2 carry
	// operations and VOPC.
	Src  [3]OpType
	Dst  OpType
	SDst OpType
	// ReadsVCC / WritesVCC: implicit VCC use in the 32-bit VALU encodings.
	ReadsVCC, WritesVCC bool
	ReadsSCC, WritesSCC bool
	ReadsDst            bool // destination is also a source (mac, madak ..., SOPK compare/arith)
	// ScalarDst: the "vector destination" field names a scalar register
	// (v_readfirstlane, VOP3 compares).
	ScalarDst bool
	// Mem: "", "smem", "flat-load", "flat-store", "ds-read", "ds-write".
	Mem string
	// Bytes moved per lane and access (for memory instructions); Two = read2/write2 style; Stride = offset scale.
	Bytes  int
	Two    bool
	Stride int
	// Branch: the instruction may change PC.
	Branch bool
}

// Key identifies one instruction of one architecture.
type Key struct {
	Arch   Arch
	Format isaenc.Format
	Opcode int
}

func (k Key) String() string { return fmt.Sprintf("%s/%s/%d", k.Arch, k.Format, k.Opcode) }

// Entry is the reference semantics of one instruction.
type Entry struct {
	Key
	Info
	// Exec applies the instruction to the state. It panics with Unsupported
	// when the description uses an operand kind or modifier that is not
	// modelled.
	Exec func(st *State, d isaenc.Desc)

	fn func(c *ctx)
}

// Options select a variant of the reference semantics.
type Options struct {
	// UnfusedFMA evaluates every fused multiply-add as round(round(a*b)+c).
	// This is NOT what the manuals define; the harness uses it to recognise
	// the known finding "fused multiply-adds are executed unfused".
	UnfusedFMA bool
}

var table = map[Key]*Entry{}

// Lookup returns the reference semantics of (arch, format, opcode).
func Lookup(a Arch, f isaenc.Format, op int) (*Entry, bool) {
	e, ok := table[Key{a, f, op}]
	return e, ok
}

// All returns every entry in (arch, format, opcode) order.
func All() []*Entry {
	out := make([]*Entry, 0, len(table))
	for _, e := range table {
		out = append(out, e)
	}
	sort.Slice(out, func(i, j int) bool {
		a, b := out[i], out[j]
		if a.Arch != b.Arch {
			return a.Arch < b.Arch
		}
		if a.Format != b.Format {
			return a.Format < b.Format
		}
		return a.Opcode < b.Opcode
	})
	return out
}

// SameInBoth reports whether both manuals define (format, opcode) and this
// transcription uses the same semantic function for both (then the two ALU
// implementations must agree with each other as well).
func SameInBoth(f isaenc.Format, op int) bool {
	a, ok1 := table[Key{GCN3, f, op}]
	b, ok2 := table[Key{CDNA3, f, op}]
	return ok1 && ok2 && a.Name == b.Name && sameTag[Key{GCN3, f, op}] == sameTag[Key{CDNA3, f, op}] && sameTag[Key{GCN3, f, op}] != 0
}

var (
	sameTag = map[Key]int{}
	nextTag = 1
)

type archSet int

const (
	onlyGCN3  archSet = 1
	onlyCDNA3 archSet = 2
	both      archSet = 3
)

// reg registers fn under (format, opcode) for the given architectures.
func reg(as archSet, f isaenc.Format, op int, info Info, fn func(c *ctx)) {
	tag := nextTag
	nextTag++
	for _, a := range []Arch{GCN3, CDNA3} {
		if (a == GCN3 && as&onlyGCN3 == 0) || (a == CDNA3 && as&onlyCDNA3 == 0) {
			continue
		}
		k := Key{a, f, op}
		if _, dup := table[k]; dup {
			panic("isaspec: duplicate registration of " + k.String())
		}
		arch := a
		table[k] = &Entry{Key: k, Info: info, fn: fn, Exec: func(st *State, d isaenc.Desc) {
			fn(&ctx{st: st, d: d, arch: arch})
		}}
		sameTag[k] = tag
	}
}

// Run executes d on st with the semantics of arch. It returns false when the
// instruction is not covered by this transcription. An Unsupported panic of
// the semantic function is returned as err.
func Run(a Arch, st *State, d isaenc.Desc) (covered bool, err error) {
	return RunWith(a, st, d, Options{})
}

// RunWith is Run with a variant of the semantics.
func RunWith(a Arch, st *State, d isaenc.Desc, opt Options) (covered bool, err error) {
	e, ok := Lookup(a, d.Format, d.Opcode)
	if !ok {
		return false, nil
	}
	defer func() {
		if r := recover(); r != nil {
			if u, isU := r.(Unsupported); isU {
				err = u
				return
			}
			panic(r)
		}
	}()
	e.fn(&ctx{st: st, d: d, arch: a, opt: opt})
	return true, nil
}
