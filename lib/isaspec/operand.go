package isaspec

import (
	"fmt"
	"math"

	"verif/lib/isaenc"
)

// Arch names one of the two instruction-set generations.
type Arch string

// The two architectures the repository implements.
const (
	GCN3  Arch = "gcn3"
	CDNA3 Arch = "cdna3"
)

// Unsupported is the panic value of a spec function that meets an operand or
// modifier this transcription does not model (trap-handler registers,
// LDS_DIRECT, DPP, ...). The harness treats it as "outside the covered
// subset", never as a verdict.
type Unsupported struct{ What string }

func (u Unsupported) Error() string { return "isaspec: not modelled: " + u.What }

func unsupported(format string, a ...any) {
	panic(Unsupported{fmt.Sprintf(format, a...)})
}

// ctx is the per-execution context handed to the semantic functions.
type ctx struct {
	st   *State
	d    isaenc.Desc
	arch Arch
	opt  Options
}

// fma32 / fma64: the fused multiply-add of the manuals (or, for the
// UnfusedFMA variant, two roundings).
func (c *ctx) fma32(a, b, x uint32) uint32 {
	if c.opt.UnfusedFMA {
		r, _ := madF32(a, b, x)
		return r
	}
	return fmaF32(a, b, x)
}

func (c *ctx) fma64(a, b, x uint64) uint64 {
	if c.opt.UnfusedFMA {
		return b64(float64(f64(a)*f64(b)) + f64(x))
	}
	return fmaF64(a, b, x)
}

func bool32(b bool) uint32 {
	if b {
		return 1
	}
	return 0
}

// inlineFloat32 returns the 32-bit pattern of an inline float constant.
// 1/(2*pi) is 0x3e22f983 in FP32.
func inlineFloat32(f float64) uint32 {
	if f == isaenc.InvTwoPi {
		return 0x3e22f983
	}
	return math.Float32bits(float32(f))
}

// inlineFloat64 returns the 64-bit pattern of an inline float constant when it
// feeds a 64-bit operand. 1/(2*pi) is 0x3fc45f306dc9c882 in FP64.
func inlineFloat64(f float64) uint64 {
	if f == isaenc.InvTwoPi {
		return 0x3fc45f306dc9c882
	}
	return math.Float64bits(f)
}

// inlineFloat16 returns the 16-bit pattern of an inline float constant.
func inlineFloat16(f float64) uint16 {
	switch f {
	case 0.5:
		return 0x3800
	case -0.5:
		return 0xb800
	case 1:
		return 0x3c00
	case -1:
		return 0xbc00
	case 2:
		return 0x4000
	case -2:
		return 0xc000
	case 4:
		return 0x4400
	case -4:
		return 0xc400
	}
	return 0x3118 // 1/(2*pi)
}

// s32 reads a scalar source as a 32-bit value.
func (c *ctx) s32(o isaenc.Operand) uint32 {
	st := c.st
	switch o.Kind {
	case isaenc.KSGPR:
		return st.SGPR[o.N]
	case isaenc.KVCCLo, isaenc.KVCC:
		return uint32(st.VCC)
	case isaenc.KVCCHi:
		return uint32(st.VCC >> 32)
	case isaenc.KExecLo, isaenc.KExec:
		return uint32(st.EXEC)
	case isaenc.KExecHi:
		return uint32(st.EXEC >> 32)
	case isaenc.KM0:
		return st.M0
	case isaenc.KSCC:
		return uint32(st.SCC)
	case isaenc.KVCCZ:
		return bool32(st.VCC == 0)
	case isaenc.KEXECZ:
		return bool32(st.EXEC == 0)
	case isaenc.KInt:
		return uint32(int32(o.N))
	case isaenc.KFloat:
		return inlineFloat32(o.F)
	case isaenc.KLiteral:
		return uint32(o.N)
	}
	unsupported("32-bit source operand of kind %q", o.Kind)
	return 0
}

// s64 reads a scalar source as a 64-bit value. fp says whether the consuming
// operand is a 64-bit float (matters for literals: a 32-bit literal supplies
// the HIGH dword of a double, low dword zero).
func (c *ctx) s64(o isaenc.Operand, fp bool) uint64 {
	st := c.st
	switch o.Kind {
	case isaenc.KSGPR:
		if o.N%2 != 0 || o.N+1 >= NumSGPR {
			unsupported("64-bit SGPR operand s%d is not an aligned pair", o.N)
		}
		return uint64(st.SGPR[o.N]) | uint64(st.SGPR[o.N+1])<<32
	case isaenc.KVCC, isaenc.KVCCLo:
		return st.VCC
	case isaenc.KExec, isaenc.KExecLo:
		return st.EXEC
	case isaenc.KInt:
		return uint64(o.N) // sign-extended to 64 bits
	case isaenc.KFloat:
		return inlineFloat64(o.F)
	case isaenc.KLiteral:
		if fp {
			return uint64(uint32(o.N)) << 32
		}
		// DOUBT: zero- vs sign-extension of a 32-bit literal feeding a 64-bit
		// integer operand; only literals with bit 31 clear are modelled.
		if uint32(o.N)&0x80000000 != 0 {
			unsupported("32-bit literal with bit 31 set as a 64-bit integer operand")
		}
		return uint64(uint32(o.N))
	}
	unsupported("64-bit source operand of kind %q", o.Kind)
	return 0
}

// ws32 writes a 32-bit scalar destination.
func (c *ctx) ws32(o isaenc.Operand, v uint32) {
	st := c.st
	switch o.Kind {
	case isaenc.KSGPR:
		st.SGPR[o.N] = v
	case isaenc.KVCCLo, isaenc.KVCC:
		st.VCC = st.VCC&^0xffffffff | uint64(v)
	case isaenc.KVCCHi:
		st.VCC = st.VCC&0xffffffff | uint64(v)<<32
	case isaenc.KExecLo, isaenc.KExec:
		st.EXEC = st.EXEC&^0xffffffff | uint64(v)
	case isaenc.KExecHi:
		st.EXEC = st.EXEC&0xffffffff | uint64(v)<<32
	case isaenc.KM0:
		st.M0 = v
	default:
		unsupported("32-bit scalar destination of kind %q", o.Kind)
	}
}

// ws64 writes a 64-bit scalar destination.
func (c *ctx) ws64(o isaenc.Operand, v uint64) {
	st := c.st
	switch o.Kind {
	case isaenc.KSGPR:
		if o.N%2 != 0 || o.N+1 >= NumSGPR {
			unsupported("64-bit SGPR destination s%d is not an aligned pair", o.N)
		}
		st.SGPR[o.N] = uint32(v)
		st.SGPR[o.N+1] = uint32(v >> 32)
	case isaenc.KVCC, isaenc.KVCCLo:
		st.VCC = v
	case isaenc.KExec, isaenc.KExecLo:
		st.EXEC = v
	default:
		unsupported("64-bit scalar destination of kind %q", o.Kind)
	}
}

// wsN writes n consecutive dwords to a scalar destination (SMEM loads).
func (c *ctx) wsN(o isaenc.Operand, v []uint32) {
	switch {
	case len(v) == 1:
		c.ws32(o, v[0])
	case len(v) == 2 && o.Kind != isaenc.KSGPR:
		c.ws64(o, uint64(v[0])|uint64(v[1])<<32)
	case o.Kind == isaenc.KSGPR:
		if int(o.N)%minInt(len(v), 4) != 0 || int(o.N)+len(v) > NumSGPR {
			unsupported("%d-dword SGPR destination s%d is misaligned or out of range", len(v), o.N)
		}
		for i, x := range v {
			c.st.SGPR[int(o.N)+i] = x
		}
	default:
		unsupported("%d-dword scalar destination of kind %q", len(v), o.Kind)
	}
}

func minInt(a, b int) int {
	if a < b {
		return a
	}
	return b
}

// v32 reads a vector source (VGPR of the lane, or a scalar/constant).
func (c *ctx) v32(o isaenc.Operand, lane int) uint32 {
	if o.Kind == isaenc.KVGPR {
		return c.st.VGPR[lane][o.N]
	}
	return c.s32(o)
}

// v64 reads a 64-bit vector source.
func (c *ctx) v64(o isaenc.Operand, lane int, fp bool) uint64 {
	if o.Kind == isaenc.KVGPR {
		if o.N+1 > 255 {
			unsupported("64-bit VGPR operand v%d runs past v255", o.N)
		}
		return uint64(c.st.VGPR[lane][o.N]) | uint64(c.st.VGPR[lane][o.N+1])<<32
	}
	return c.s64(o, fp)
}

// vN reads n consecutive VGPRs of a lane.
func (c *ctx) vN(o isaenc.Operand, lane, n int) []uint32 {
	if o.Kind != isaenc.KVGPR || int(o.N)+n > 256 {
		unsupported("%d-dword VGPR operand %q %d", n, o.Kind, o.N)
	}
	out := make([]uint32, n)
	copy(out, c.st.VGPR[lane][o.N:int(o.N)+n])
	return out
}

// wv32 writes a VGPR of a lane.
func (c *ctx) wv32(o isaenc.Operand, lane int, v uint32) {
	if o.Kind != isaenc.KVGPR {
		unsupported("vector destination of kind %q", o.Kind)
	}
	c.st.VGPR[lane][o.N] = v
}

// wv64 writes a VGPR pair of a lane.
func (c *ctx) wv64(o isaenc.Operand, lane int, v uint64) {
	if o.Kind != isaenc.KVGPR || o.N+1 > 255 {
		unsupported("64-bit vector destination %q %d", o.Kind, o.N)
	}
	c.st.VGPR[lane][o.N] = uint32(v)
	c.st.VGPR[lane][o.N+1] = uint32(v >> 32)
}

// wvN writes n consecutive VGPRs of a lane.
func (c *ctx) wvN(o isaenc.Operand, lane int, v []uint32) {
	if o.Kind != isaenc.KVGPR || int(o.N)+len(v) > 256 {
		unsupported("%d-dword vector destination %q %d", len(v), o.Kind, o.N)
	}
	copy(c.st.VGPR[lane][o.N:], v)
}

func (c *ctx) active(lane int) bool { return c.st.EXEC>>uint(lane)&1 != 0 }

// src returns source operand i of the description.
func (c *ctx) src(i int) isaenc.Operand {
	switch i {
	case 0:
		return c.d.Src0
	case 1:
		return c.d.Src1
	}
	return c.d.Src2
}

// ---------------------------------------------------------------------------
// VALU typed sources (SDWA selects, VOP3 / SDWA float modifiers)

func sdwaSelect(v uint32, sel int, sext bool) uint32 {
	switch sel {
	case isaenc.SelByte0, isaenc.SelByte1, isaenc.SelByte2, isaenc.SelByte3:
		b := v >> (8 * uint(sel)) & 0xff
		if sext {
			return uint32(int32(int8(b)))
		}
		return b
	case isaenc.SelWord0, isaenc.SelWord1:
		w := v >> (16 * uint(sel-isaenc.SelWord0)) & 0xffff
		if sext {
			return uint32(int32(int16(w)))
		}
		return w
	}
	return v
}

func (c *ctx) sdwaSel(i int) (sel int, sext, neg, abs bool) {
	s := c.d.SDWA
	if i == 0 {
		return s.Src0Sel, s.Src0Sext, s.Src0Neg, s.Src0Abs
	}
	return s.Src1Sel, s.Src1Sext, s.Src1Neg, s.Src1Abs
}

// srcU reads source i as a 32-bit integer (after the SDWA select).
func (c *ctx) srcU(i, lane int) uint32 {
	if c.d.DPP != nil {
		unsupported("DPP")
	}
	v := c.v32(c.src(i), lane)
	if c.d.SDWA != nil && i < 2 {
		sel, sext, neg, abs := c.sdwaSel(i)
		if neg || abs {
			unsupported("SDWA float modifier on an integer source")
		}
		v = sdwaSelect(v, sel, sext)
	}
	if c.vop3Mods(i) != 0 {
		unsupported("VOP3 abs/neg on an integer source")
	}
	return v
}

// vop3Mods returns bit0 = abs, bit1 = neg of source i for VOP3 encodings.
func (c *ctx) vop3Mods(i int) int {
	if c.d.Format != isaenc.VOP3a && c.d.Format != isaenc.VOP3b {
		return 0
	}
	m := 0
	if c.d.Abs>>uint(i)&1 != 0 {
		m |= 1
	}
	if c.d.Neg>>uint(i)&1 != 0 {
		m |= 2
	}
	return m
}

// srcF reads source i as FP32 bits with |x| and -x modifiers applied.
func (c *ctx) srcF(i, lane int) uint32 {
	if c.d.DPP != nil {
		unsupported("DPP")
	}
	v := c.v32(c.src(i), lane)
	abs, neg := false, false
	if c.d.SDWA != nil && i < 2 {
		sel, sext, n, a := c.sdwaSel(i)
		if sel != isaenc.SelDWord || sext {
			unsupported("SDWA sub-dword select on an FP32 source")
		}
		abs, neg = a, n
	}
	m := c.vop3Mods(i)
	abs = abs || m&1 != 0
	neg = neg || m&2 != 0
	if abs {
		v &^= 0x80000000
	}
	if neg {
		v ^= 0x80000000
	}
	return v
}

// srcD reads source i as FP64 bits with modifiers applied.
func (c *ctx) srcD(i, lane int) uint64 {
	if c.d.DPP != nil || c.d.SDWA != nil {
		unsupported("DPP/SDWA on a 64-bit operation")
	}
	v := c.v64(c.src(i), lane, true)
	m := c.vop3Mods(i)
	if m&1 != 0 {
		v &^= 1 << 63
	}
	if m&2 != 0 {
		v ^= 1 << 63
	}
	return v
}

// srcQ reads source i as a 64-bit integer.
func (c *ctx) srcQ(i, lane int) uint64 {
	if c.d.DPP != nil || c.d.SDWA != nil {
		unsupported("DPP/SDWA on a 64-bit operation")
	}
	if c.vop3Mods(i) != 0 {
		unsupported("VOP3 abs/neg on an integer source")
	}
	return c.v64(c.src(i), lane, false)
}

// noOutMods rejects clamp / omod on operations where this transcription does
// not model them (integer results).
func (c *ctx) noOutMods() {
	if c.d.Clamp || c.d.Omod != 0 || (c.d.SDWA != nil && (c.d.SDWA.Clamp || c.d.SDWA.Omod != 0)) {
		unsupported("clamp/omod on a non-float result")
	}
}

// dstU writes a 32-bit integer result to the vector destination of the lane
// (SDWA dst_sel / dst_unused applied).
func (c *ctx) dstU(lane int, v uint32) {
	c.noOutMods()
	c.wv32(c.d.Dst, lane, c.sdwaDst(lane, v))
}

func (c *ctx) sdwaDst(lane int, v uint32) uint32 {
	s := c.d.SDWA
	if s == nil || s.DstSel == isaenc.SelDWord {
		return v
	}
	var shift, width uint
	switch s.DstSel {
	case isaenc.SelByte0, isaenc.SelByte1, isaenc.SelByte2, isaenc.SelByte3:
		shift, width = 8*uint(s.DstSel), 8
	default:
		shift, width = 16*uint(s.DstSel-isaenc.SelWord0), 16
	}
	mask := (uint32(1)<<width - 1) << shift
	field := v << shift & mask
	switch s.DstUnused {
	case isaenc.UnusedPad:
		return field
	case isaenc.UnusedSext:
		// bits above the field replicate the field's sign bit, bits below are 0
		out := field
		if field>>(shift+width-1)&1 != 0 {
			out |= ^uint32(0) << (shift + width)
			if shift+width >= 32 {
				out = field
			}
		}
		return out
	case isaenc.UnusedPreserve:
		old := c.st.VGPR[lane][c.d.Dst.N]
		return old&^mask | field
	}
	unsupported("SDWA dst_unused %d", s.DstUnused)
	return 0
}

// fpOut describes the per-lane classification of an FP result.
type fpOut struct {
	dontCare bool
	why      string
}

// dstF writes FP32 result bits. srcs are the FP32 source bit patterns that took
// part (for the denormal / sNaN classification).
func (c *ctx) dstF(lane int, r uint32, dc string) {
	clamp := c.d.Clamp || (c.d.SDWA != nil && c.d.SDWA.Clamp)
	omod := c.d.Omod
	if c.d.SDWA != nil && c.d.SDWA.Omod != 0 {
		omod = c.d.SDWA.Omod
	}
	if c.d.SDWA != nil && c.d.SDWA.DstSel != isaenc.SelDWord {
		unsupported("SDWA sub-dword dst_sel on an FP32 result")
	}
	reg := int(c.d.Dst.N)
	if c.d.Dst.Kind != isaenc.KVGPR {
		unsupported("vector destination of kind %q", c.d.Dst.Kind)
	}
	if omod != 0 && dc == "" {
		// The manual ties output modifiers to the denormal/IEEE mode bits.
		dc = "omod"
	}
	if dc == "" && isNaN32(r) {
		if clamp {
			dc = "nan-under-clamp" // 0 or NaN depending on MODE.DX10_CLAMP
		} else {
			c.st.VGPR[lane][reg] = 0x7fc00000
			c.st.Marks = append(c.st.Marks, Mark{Kind: CellVGPR, Index: reg, Lane: lane, NaN: 32, Why: "nan-result"})
			c.st.Note("nan-result")
			return
		}
	}
	if dc == "" && (isDenorm32(r) || r&0x7fffffff == 0x00800000) {
		dc = "denorm-out"
	}
	if dc != "" {
		c.st.VGPR[lane][reg] = r
		c.st.Marks = append(c.st.Marks, Mark{Kind: CellVGPR, Index: reg, Lane: lane, Mask: 0xffffffff, Why: dc})
		c.st.Note(dc)
		return
	}
	if clamp {
		f := f32(r)
		switch {
		case r == 0x80000000:
			// DOUBT: sign of a clamped -0
			c.st.VGPR[lane][reg] = 0
			c.st.Marks = append(c.st.Marks, Mark{Kind: CellVGPR, Index: reg, Lane: lane, Mask: 0x80000000, Why: "clamp-neg-zero"})
			return
		case f < 0:
			r = 0
		case f > 1:
			r = 0x3f800000
		}
		c.st.Note("clamp")
	}
	c.st.VGPR[lane][reg] = r
}

// dstD writes FP64 result bits.
func (c *ctx) dstD(lane int, r uint64, dc string) {
	reg := int(c.d.Dst.N)
	if c.d.Dst.Kind != isaenc.KVGPR || reg+1 > 255 {
		unsupported("64-bit vector destination %q %d", c.d.Dst.Kind, c.d.Dst.N)
	}
	if c.d.Omod != 0 && dc == "" {
		dc = "omod"
	}
	if dc == "" && isNaN64(r) {
		if c.d.Clamp {
			dc = "nan-under-clamp"
		} else {
			c.st.VGPR[lane][reg] = 0
			c.st.VGPR[lane][reg+1] = 0x7ff80000
			c.st.Marks = append(c.st.Marks, Mark{Kind: CellVGPR, Index: reg, Lane: lane, NaN: 64, Why: "nan-result"})
			c.st.Note("nan-result")
			return
		}
	}
	if dc == "" && (isDenorm64(r) || r&0x7fffffffffffffff == 0x0010000000000000) {
		dc = "denorm-out"
	}
	if dc != "" {
		c.st.VGPR[lane][reg] = uint32(r)
		c.st.VGPR[lane][reg+1] = uint32(r >> 32)
		c.st.Marks = append(c.st.Marks,
			Mark{Kind: CellVGPR, Index: reg, Lane: lane, Mask: 0xffffffff, Why: dc},
			Mark{Kind: CellVGPR, Index: reg + 1, Lane: lane, Mask: 0xffffffff, Why: dc})
		c.st.Note(dc)
		return
	}
	if c.d.Clamp {
		f := f64(r)
		switch {
		case r == 1<<63:
			c.st.VGPR[lane][reg] = 0
			c.st.VGPR[lane][reg+1] = 0
			c.st.Marks = append(c.st.Marks, Mark{Kind: CellVGPR, Index: reg + 1, Lane: lane, Mask: 0x80000000, Why: "clamp-neg-zero"})
			return
		case f < 0:
			r = 0
		case f > 1:
			r = 0x3ff0000000000000
		}
		c.st.Note("clamp")
	}
	c.st.VGPR[lane][reg] = uint32(r)
	c.st.VGPR[lane][reg+1] = uint32(r >> 32)
}

// fpIn32 classifies FP32 inputs: a denormal input makes the result depend on
// MODE.FP_DENORM.
func fpIn32(srcs ...uint32) string {
	for _, s := range srcs {
		if isDenorm32(s) {
			return "denorm-in"
		}
	}
	return ""
}

func fpIn64(srcs ...uint64) string {
	for _, s := range srcs {
		if isDenorm64(s) {
			return "denorm-in"
		}
	}
	return ""
}

// markBit marks one bit of a 64-bit lane mask destination (VCC / SGPR pair) as
// unconstrained.
func (c *ctx) markMaskBit(o isaenc.Operand, lane int, why string) {
	bit := uint64(1) << uint(lane)
	switch o.Kind {
	case isaenc.KVCC, isaenc.KVCCLo:
		c.st.Marks = append(c.st.Marks, Mark{Kind: CellVCC, Mask: bit, Why: why})
	case isaenc.KExec, isaenc.KExecLo:
		c.st.Marks = append(c.st.Marks, Mark{Kind: CellEXEC, Mask: bit, Why: why})
	case isaenc.KSGPR:
		if lane < 32 {
			c.st.Marks = append(c.st.Marks, Mark{Kind: CellSGPR, Index: int(o.N), Mask: bit, Why: why})
		} else {
			c.st.Marks = append(c.st.Marks, Mark{Kind: CellSGPR, Index: int(o.N) + 1, Mask: bit >> 32, Why: why})
		}
	default:
		unsupported("lane-mask destination of kind %q", o.Kind)
	}
	c.st.Note(why)
}
