// Package isaspec is an executable transcription of the instruction semantics
// of the AMD GCN3 ("Graphics Core Next Architecture, Generation 3", gfx8) and
// CDNA3 (gfx940/942) ISA manuals, at the level of ONE instruction executed
// from an explicit architectural state.
//
// It is the trusted base of property C03 and is deliberately independent of
// github.com/sarchlab/mgpusim/v4/amd/emu: nothing here is derived from the
// implementation; every function is written from the manuals' per-instruction
// pseudo code (the PDFs in /repo/docs are not machine-readable in the sandbox,
// so the text is the author's recollection of the public manuals; every place
// where that recollection is not certain is marked "DOUBT:" and the function
// then either leaves the doubtful part of the result unconstrained (DontCare)
// or the opcode is not registered at all).
//
// Conventions
//
//   - State.PC is the address of the instruction being executed, and after
//     the execution it holds what ALU.Run leaves there: unchanged for every
//     instruction that is not a taken branch; PC + signext(SIMM16)*4 for a
//     taken branch. The compute unit adds the size of the instruction
//     afterwards (timing model: UpdatePCAndSetReady after ALU.Run), which
//     gives the manuals' "PC = PC + signext(SIMM16*4) + 4". s_getpc_b64
//     returns PC + 4 ("the address of the next instruction").
//     NOTE: the emulation compute unit (amd/emu/computeunit.go) advances the
//     PC BEFORE it calls ALU.Run; branches come out the same, but
//     s_getpc_b64 then returns the address of the instruction after the next
//     one. That is a defect of that compute unit (reported by C03), not of
//     the ALU, and is outside what a single ALU.Run can observe.
//   - MODE register: not modelled. The functions assume round-to-nearest-even
//     for FP32 and FP64 (the reset value and what every compiler emits). All
//     results that depend on the denormal-flush bits or on IEEE/DX10_CLAMP
//     (denormal operands or results, signalling NaNs in min/max, NaN under
//     clamp) are reported as DontCare cells: the oracle does not constrain
//     them. NaN results are reported as "some NaN" (payloads are not
//     constrained).
//   - A memory access outside the mapped pages sets State.Fault (the manuals
//     define a memory-violation exception, not a resulting state); the rest of
//     the state is then unspecified.
//   - Within one instruction, the order in which lanes access memory/LDS is
//     not defined by the manuals. Bytes written by more than one lane with
//     different data are DontCare.
package isaspec

import (
	"fmt"
	"math"
	"sort"
)

// NumSGPR is the number of general scalar registers (s0..s101).
const NumSGPR = 102

// PageSize is the size of a page of the sparse memory.
const PageSize = 4096

// CellKind names a part of the state.
type CellKind uint8

// Kinds of cells that can be marked.
const (
	CellSGPR CellKind = iota // Index = register number
	CellVGPR                 // Index = register number, Lane = lane
	CellVCC                  // 64-bit
	CellEXEC                 // 64-bit
	CellSCC
	CellM0
	CellLDS // Index = byte address
	CellMem // Addr = byte address
)

// Mark says that (some bits of) a cell are not constrained by the manuals
// for this execution, or are only constrained to hold a NaN.
type Mark struct {
	Kind  CellKind
	Index int
	Lane  int
	Addr  uint64
	// Mask: the unconstrained bits of the (up to 64-bit) cell. For NaN marks
	// the mask is unused.
	Mask uint64
	// NaN: 0 = plain don't-care; 32 / 64 / 16 = the cell (for 64: the pair of
	// 32-bit registers Index, Index+1; for 16 with Hi: the upper half) must
	// hold a NaN of that width.
	NaN int
	Hi  bool
	// HasAlt: the 32-bit cell may alternatively hold Alt (used by the harness
	// for known findings whose signature is "the other well-defined value").
	HasAlt bool
	Alt    uint32
	// AltNaN (32 or 64): alternatively the cell (pair) may hold any NaN.
	AltNaN int
	Why    string
}

// State is the architectural state one instruction reads and writes.
type State struct {
	SGPR [NumSGPR]uint32
	VGPR [64][256]uint32
	VCC  uint64
	EXEC uint64
	SCC  uint8
	M0   uint32
	PC   uint64
	LDS  []byte
	Mem  *Memory

	// Fault is set (to a description) when the instruction performs a memory
	// access outside the mapped pages or an LDS access outside the allocation.
	Fault string
	// Marks lists cells whose final value is not (fully) constrained.
	Marks []Mark
	// Notes are classification labels produced while executing (e.g.
	// "denorm", "nan-result", "lane-conflict").
	Notes []string
}

// Note adds a classification label once.
func (st *State) Note(s string) {
	for _, n := range st.Notes {
		if n == s {
			return
		}
	}
	st.Notes = append(st.Notes, s)
}

// Memory is a sparse byte-addressed memory made of mapped pages.
type Memory struct {
	Pages map[uint64][]byte // page number -> PageSize bytes
}

// NewMemory returns an empty memory.
func NewMemory() *Memory { return &Memory{Pages: map[uint64][]byte{}} }

// Map maps (zero-filled) the page containing addr if it is not mapped yet.
func (m *Memory) Map(addr uint64) []byte {
	pn := addr / PageSize
	p, ok := m.Pages[pn]
	if !ok {
		p = make([]byte, PageSize)
		m.Pages[pn] = p
	}
	return p
}

// Mapped reports whether the page containing addr is mapped.
func (m *Memory) Mapped(addr uint64) bool {
	_, ok := m.Pages[addr/PageSize]
	return ok
}

// PageNumbers returns the mapped page numbers in ascending order.
func (m *Memory) PageNumbers() []uint64 {
	out := make([]uint64, 0, len(m.Pages))
	for pn := range m.Pages {
		out = append(out, pn)
	}
	sort.Slice(out, func(i, j int) bool { return out[i] < out[j] })
	return out
}

// Load returns the byte at addr (ok = false when unmapped).
func (m *Memory) Load(addr uint64) (byte, bool) {
	p, ok := m.Pages[addr/PageSize]
	if !ok {
		return 0, false
	}
	return p[addr%PageSize], true
}

// Store writes one byte (false when unmapped).
func (m *Memory) Store(addr uint64, b byte) bool {
	p, ok := m.Pages[addr/PageSize]
	if !ok {
		return false
	}
	p[addr%PageSize] = b
	return true
}

// Clone returns a deep copy.
func (m *Memory) Clone() *Memory {
	c := NewMemory()
	for pn, p := range m.Pages {
		c.Pages[pn] = append([]byte(nil), p...)
	}
	return c
}

// Clone returns a deep copy of the state (marks and notes are not copied).
func (st *State) Clone() *State {
	c := new(State)
	*c = *st
	c.LDS = append([]byte(nil), st.LDS...)
	if st.Mem != nil {
		c.Mem = st.Mem.Clone()
	}
	c.Marks = nil
	c.Notes = nil
	c.Fault = ""
	return c
}

// CopyFrom makes st a deep copy of src, re-using st's buffers (marks, notes
// and fault are cleared).
func (st *State) CopyFrom(src *State) {
	lds, mem := st.LDS, st.Mem
	*st = *src
	st.LDS = append(lds[:0], src.LDS...)
	if src.LDS == nil {
		st.LDS = nil
	}
	if mem == nil {
		mem = NewMemory()
	}
	for pn := range mem.Pages {
		if _, ok := src.Mem.Pages[pn]; !ok {
			delete(mem.Pages, pn)
		}
	}
	if src.Mem != nil {
		for pn, p := range src.Mem.Pages {
			mem.Pages[pn] = append(mem.Pages[pn][:0], p...)
		}
	}
	st.Mem = mem
	st.Marks = nil
	st.Notes = nil
	st.Fault = ""
}

// ---------------------------------------------------------------------------
// memory helpers used by the instruction functions

func (st *State) fault(format string, a ...any) {
	if st.Fault == "" {
		st.Fault = fmt.Sprintf(format, a...)
	}
}

// memRead reads n bytes at addr; on an unmapped byte it records a fault and
// returns zeros.
func (st *State) memRead(addr uint64, n int) []byte {
	out := make([]byte, n)
	for i := 0; i < n; i++ {
		b, ok := st.Mem.Load(addr + uint64(i))
		if !ok {
			st.fault("memory read of %d bytes at 0x%x touches the unmapped address 0x%x", n, addr, addr+uint64(i))
			return out
		}
		out[i] = b
	}
	return out
}

// memMapped reports whether all n bytes at addr are mapped.
func (st *State) memMapped(addr uint64, n int) bool {
	for i := 0; i < n; i++ {
		if !st.Mem.Mapped(addr + uint64(i)) {
			return false
		}
	}
	return true
}

// writeLog records per-instruction byte writes so that conflicting writes of
// different lanes become DontCare.
type writeLog struct {
	lane map[uint64]int
	val  map[uint64]byte
}

func newWriteLog() *writeLog { return &writeLog{lane: map[uint64]int{}, val: map[uint64]byte{}} }

// ---------------------------------------------------------------------------
// bit helpers

func le32(b []byte) uint32 {
	return uint32(b[0]) | uint32(b[1])<<8 | uint32(b[2])<<16 | uint32(b[3])<<24
}

func put32(b []byte, v uint32) {
	b[0], b[1], b[2], b[3] = byte(v), byte(v>>8), byte(v>>16), byte(v>>24)
}

func f32(b uint32) float32 { return math.Float32frombits(b) }
func b32(f float32) uint32 { return math.Float32bits(f) }
func f64(b uint64) float64 { return math.Float64frombits(b) }
func b64(f float64) uint64 { return math.Float64bits(f) }

func isNaN32(b uint32) bool    { return b&0x7f800000 == 0x7f800000 && b&0x007fffff != 0 }
func isSNaN32(b uint32) bool   { return isNaN32(b) && b&0x00400000 == 0 }
func isInf32(b uint32) bool    { return b&0x7fffffff == 0x7f800000 }
func isDenorm32(b uint32) bool { return b&0x7f800000 == 0 && b&0x007fffff != 0 }
func isZero32(b uint32) bool   { return b&0x7fffffff == 0 }

func isNaN64(b uint64) bool {
	return b&0x7ff0000000000000 == 0x7ff0000000000000 && b&0x000fffffffffffff != 0
}
func isSNaN64(b uint64) bool   { return isNaN64(b) && b&0x0008000000000000 == 0 }
func isDenorm64(b uint64) bool { return b&0x7ff0000000000000 == 0 && b&0x000fffffffffffff != 0 }
func isZero64(b uint64) bool   { return b&0x7fffffffffffffff == 0 }

func isNaN16(h uint16) bool    { return h&0x7c00 == 0x7c00 && h&0x03ff != 0 }
func isDenorm16(h uint16) bool { return h&0x7c00 == 0 && h&0x03ff != 0 }

// IsNaN32 / IsNaN64 / IsNaN16 are exported for the comparison in the harness.
func IsNaN32(b uint32) bool { return isNaN32(b) }
func IsNaN64(b uint64) bool { return isNaN64(b) }
func IsNaN16(h uint16) bool { return isNaN16(h) }
