package isaspec

import "math"

// Exactly rounded (round-to-nearest-even) floating-point helpers on raw bit
// patterns. NaN results are whatever Go produces; callers only use "is NaN".

func addF32(a, b uint32) uint32 { return b32(float32(f32(a) + f32(b))) }
func subF32(a, b uint32) uint32 { return b32(float32(f32(a) - f32(b))) }
func mulF32(a, b uint32) uint32 { return b32(float32(f32(a) * f32(b))) }

// madF32 is the UNFUSED multiply-add of v_mad_f32 / v_mac_f32 / v_madmk / v_madak:
// the product is rounded to FP32 before the addition.
func madF32(a, b, c uint32) (r uint32, productDenorm bool) {
	p := float32(f32(a) * f32(b))
	pb := b32(p)
	return b32(float32(p + f32(c))), isDenorm32(pb)
}

// fmaF32 is the fused multiply-add with a single rounding.
func fmaF32(a, b, c uint32) uint32 {
	fa, fb, fc := float64(f32(a)), float64(f32(b)), float64(f32(c))
	p := fa * fb // exact: 24+24 significant bits
	s := p + fc  // one rounding to 53 bits
	if math.IsNaN(s) || math.IsInf(s, 0) {
		return b32(float32(s))
	}
	// exact error of the addition (TwoSum), then round-to-odd so that the final
	// rounding to 24 bits is the correctly rounded result of the exact value
	bb := s - p
	err := (p - (s - bb)) + (fc - bb)
	if err != 0 && math.Float64bits(s)&1 == 0 {
		if err > 0 {
			s = math.Nextafter(s, math.Inf(1))
		} else {
			s = math.Nextafter(s, math.Inf(-1))
		}
	}
	return b32(float32(s))
}

func addF64(a, b uint64) uint64 { return b64(f64(a) + f64(b)) }
func mulF64(a, b uint64) uint64 { return b64(f64(a) * f64(b)) }
func fmaF64(a, b, c uint64) uint64 {
	return b64(math.FMA(f64(a), f64(b), f64(c)))
}

// minF32 / maxF32 follow the manuals' V_MIN_F32 / V_MAX_F32 pseudo code for the
// non-signalling cases:
//
//	if S0 is NaN: D = S1; else if S1 is NaN: D = S0;
//	else if S0 == +0 and S1 == -0: D = S1 (min) / S0 (max);
//	else if S0 == -0 and S1 == +0: D = S0 (min) / S1 (max);
//	else D = S0 < S1 ? S0 : S1 (min), S0 > S1 ? S0 : S1 (max)
//
// A signalling NaN makes the result depend on MODE.IEEE (dc = "snan-minmax").
func minmaxF32(a, b uint32, max bool) (r uint32, dc string) {
	if isSNaN32(a) || isSNaN32(b) {
		return a, "snan-minmax"
	}
	switch {
	case isNaN32(a):
		return b, ""
	case isNaN32(b):
		return a, ""
	case isZero32(a) && isZero32(b):
		// -0 is smaller than +0
		neg, pos := a, b
		if a>>31 == 0 {
			neg, pos = b, a
		}
		if a>>31 == b>>31 {
			return a, ""
		}
		if max {
			return pos, ""
		}
		return neg, ""
	}
	fa, fb := f32(a), f32(b)
	if max {
		if fa > fb {
			return a, ""
		}
		return b, ""
	}
	if fa < fb {
		return a, ""
	}
	return b, ""
}

func minmaxF64(a, b uint64, max bool) (r uint64, dc string) {
	if isSNaN64(a) || isSNaN64(b) {
		return a, "snan-minmax"
	}
	switch {
	case isNaN64(a):
		return b, ""
	case isNaN64(b):
		return a, ""
	case isZero64(a) && isZero64(b):
		if a>>63 == b>>63 {
			return a, ""
		}
		neg, pos := a, b
		if a>>63 == 0 {
			neg, pos = b, a
		}
		if max {
			return pos, ""
		}
		return neg, ""
	}
	fa, fb := f64(a), f64(b)
	if max {
		if fa > fb {
			return a, ""
		}
		return b, ""
	}
	if fa < fb {
		return a, ""
	}
	return b, ""
}

// f32ToF16 converts with round-to-nearest-even.
func f32ToF16(x uint32) uint16 {
	sign := uint16(x >> 16 & 0x8000)
	exp := int(x >> 23 & 0xff)
	man := x & 0x7fffff
	switch {
	case exp == 0xff:
		if man != 0 {
			return sign | 0x7e00 // NaN
		}
		return sign | 0x7c00
	case exp == 0 && man == 0:
		return sign
	}
	// value = (1.man) * 2^(exp-127) (FP32 denormal inputs are far below the FP16 range)
	if exp == 0 {
		return sign
	}
	e := exp - 127 + 15
	m := man | 0x800000 // 24-bit significand
	if e >= 0x1f {
		return sign | 0x7c00
	}
	var shift uint
	if e <= 0 {
		// result is an FP16 denormal (or zero): significand shifted right by 1-e more bits
		if 14-e > 31 {
			return sign
		}
		shift = uint(14 - e)
		e = 0
	} else {
		shift = 13
	}
	half := uint32(1) << (shift - 1)
	q := m >> shift
	rem := m & (uint32(1)<<shift - 1)
	if rem > half || (rem == half && q&1 == 1) {
		q++
	}
	if e == 0 {
		// q may have carried into the normal range (q == 0x400): the encoding is then exactly right
		return sign | uint16(q)
	}
	// q has the implicit bit at position 10
	out := uint32(e)<<10 + (q - 0x400)
	if out >= 0x7c00 {
		return sign | 0x7c00
	}
	return sign | uint16(out)
}

// f16ToF32 converts exactly.
func f16ToF32(h uint16) uint32 {
	sign := uint32(h&0x8000) << 16
	exp := uint32(h >> 10 & 0x1f)
	man := uint32(h & 0x3ff)
	switch {
	case exp == 0x1f:
		if man != 0 {
			return sign | 0x7fc00000 | man<<13
		}
		return sign | 0x7f800000
	case exp == 0:
		if man == 0 {
			return sign
		}
		// denormal: man * 2^-24
		return sign | b32(float32(man)*float32(math.Ldexp(1, -24)))
	}
	return sign | (exp+112)<<23 | man<<13
}
