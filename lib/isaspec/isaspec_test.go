package isaspec

import (
	"math"
	"math/big"
	"math/rand"
	"testing"

	"verif/lib/isaenc"
)

// exact FMA reference with math/big: a*b+c computed exactly, rounded once to FP32.
func fmaRef(a, b, c float32) float32 {
	if math.IsNaN(float64(a)) || math.IsNaN(float64(b)) || math.IsNaN(float64(c)) ||
		math.IsInf(float64(a), 0) || math.IsInf(float64(b), 0) || math.IsInf(float64(c), 0) {
		return float32(float64(a)*float64(b) + float64(c))
	}
	x := new(big.Float).SetPrec(2000).SetFloat64(float64(a))
	y := new(big.Float).SetPrec(2000).SetFloat64(float64(b))
	z := new(big.Float).SetPrec(2000).SetFloat64(float64(c))
	x.Mul(x, y)
	x.Add(x, z)
	if x.Sign() == 0 {
		// sign of an exact zero: +0 unless both addends are -0
		p := float64(a) * float64(b)
		return float32(p + float64(c))
	}
	r, _ := x.Float32() // rounds to nearest even, handles denormals and overflow
	return r
}

func TestFmaF32(t *testing.T) {
	rng := rand.New(rand.NewSource(1))
	interesting := []uint32{0, 0x80000000, 1, 0x007fffff, 0x00800000, 0x7f7fffff, 0xff7fffff, 0x3f800000, 0xbf800000,
		0x3f800001, 0x3f7fffff, 0x4b000000, 0x4b000001, 0x33800000, 0x34000000, 0x33000001, 0x7f800000, 0xff800000, 0x7fc00000}
	draw := func() uint32 {
		switch rng.Intn(4) {
		case 0:
			return interesting[rng.Intn(len(interesting))]
		case 1:
			// close exponents so that cancellation happens
			return uint32(rng.Intn(2))<<31 | uint32(120+rng.Intn(16))<<23 | uint32(rng.Intn(1<<23))
		case 2:
			return uint32(rng.Intn(2))<<31 | uint32(127)<<23 | uint32(rng.Intn(4))<<21 | uint32(rng.Intn(4))
		}
		return rng.Uint32()
	}
	for i := 0; i < 400000; i++ {
		a, b, c := draw(), draw(), draw()
		got := fmaF32(a, b, c)
		want := b32(fmaRef(f32(a), f32(b), f32(c)))
		if got != want && !(isNaN32(got) && isNaN32(want)) {
			t.Fatalf("fma(%08x,%08x,%08x) = %08x want %08x", a, b, c, got, want)
		}
	}
}

func TestF16Conversions(t *testing.T) {
	for h := 0; h < 0x10000; h++ {
		hh := uint16(h)
		x := f16ToF32(hh)
		if isNaN16(hh) {
			if !isNaN32(x) {
				t.Fatalf("f16 NaN %04x -> %08x", hh, x)
			}
			continue
		}
		if back := f32ToF16(x); back != hh {
			t.Fatalf("roundtrip %04x -> %08x -> %04x", hh, x, back)
		}
	}
	// midpoints between adjacent positive finite halves round to even; just above / below go to the nearer
	for h := 0; h < 0x7bff; h++ {
		lo, hi := f32(f16ToF32(uint16(h))), f32(f16ToF32(uint16(h+1)))
		mid := float32((float64(lo) + float64(hi)) / 2)
		if float64(mid) != (float64(lo)+float64(hi))/2 {
			continue // not representable (deep denormal range): skip
		}
		even := uint16(h)
		if h&1 == 1 {
			even = uint16(h + 1)
		}
		if got := f32ToF16(b32(mid)); got != even {
			t.Fatalf("midpoint of %04x/%04x (%08x) -> %04x want %04x", h, h+1, b32(mid), got, even)
		}
		up := math.Nextafter32(mid, float32(math.Inf(1)))
		dn := math.Nextafter32(mid, float32(math.Inf(-1)))
		if got := f32ToF16(b32(up)); got != uint16(h+1) {
			t.Fatalf("just above midpoint %04x: %04x", h, got)
		}
		if got := f32ToF16(b32(dn)); got != uint16(h) {
			t.Fatalf("just below midpoint %04x: %04x", h, got)
		}
	}
	if f32ToF16(0x477ff000) != 0x7c00 || f32ToF16(0x477fefff) != 0x7bff || f32ToF16(0x7f800000) != 0x7c00 || f32ToF16(0xff800000) != 0xfc00 {
		t.Fatalf("overflow boundary")
	}
}

func TestInlineConstants(t *testing.T) {
	if inlineFloat32(isaenc.InvTwoPi) != 0x3e22f983 {
		t.Fatal("1/2pi f32")
	}
	if inlineFloat64(1.0) != 0x3ff0000000000000 || inlineFloat64(-0.5) != 0xbfe0000000000000 {
		t.Fatal("f64 inline")
	}
	// the manuals give 0x3fc45f306dc9c882 for 1/(2*pi) in double precision
	if inlineFloat64(isaenc.InvTwoPi) != 0x3fc45f306dc9c882 {
		t.Fatal("1/2pi f64")
	}
}

// examples printed in the manuals
func TestManualExamples(t *testing.T) {
	run := func(d isaenc.Desc, set func(st *State)) *State {
		st := &State{Mem: NewMemory()}
		set(st)
		ok, err := Run(GCN3, st, d)
		if !ok || err != nil {
			t.Fatalf("%+v: %v %v", d, ok, err)
		}
		return st
	}
	absdiff := func(a, b uint32) uint32 {
		st := run(isaenc.Desc{Format: isaenc.SOP2, Opcode: 42, Dst: isaenc.S(0), Src0: isaenc.S(1), Src1: isaenc.S(2)},
			func(st *State) { st.SGPR[1], st.SGPR[2] = a, b })
		return st.SGPR[0]
	}
	for _, e := range [][3]uint32{{2, 5, 3}, {0xffffffff, 0, 1}, {0x80000000, 0, 0x80000000}, {0x80000000, 1, 0x7fffffff},
		{0x80000000, 0xffffffff, 0x7fffffff}, {0x80000000, 0xfffffffe, 0x7ffffffe}} {
		if got := absdiff(e[0], e[1]); got != e[2] {
			t.Errorf("s_absdiff_i32(%x,%x) = %x want %x", e[0], e[1], got, e[2])
		}
	}
	// v_cmp_ge_u32 vcc, -16, v1 with v1 = 0xfffffff9: 0xfffffff0 >= 0xfffffff9 is false
	st := run(isaenc.Desc{Format: isaenc.VOPC, Opcode: 0xce, Src0: isaenc.Int(-16), Src1: isaenc.V(1)},
		func(st *State) {
			st.EXEC = 1
			st.VGPR[0][1] = 0xfffffff9
			st.VCC = 0xff
		})
	if st.VCC != 0 {
		t.Errorf("v_cmp_ge_u32 -16, 0xfffffff9: VCC = %x", st.VCC)
	}
	// s_bfe_i32: offset 4, width 4 of 0xf0 = 0xf -> -1
	st = run(isaenc.Desc{Format: isaenc.SOP2, Opcode: 38, Dst: isaenc.S(0), Src0: isaenc.S(1), Src1: isaenc.Lit(4<<16 | 4)},
		func(st *State) { st.SGPR[1] = 0xf0 })
	if st.SGPR[0] != 0xffffffff || st.SCC != 1 {
		t.Errorf("s_bfe_i32 = %x scc %d", st.SGPR[0], st.SCC)
	}
	// taken branch: PC + simm16*4 (the compute unit adds the 4)
	st = run(isaenc.Desc{Format: isaenc.SOPP, Opcode: 2, SImm16: 0xfffe}, func(st *State) { st.PC = 0x100 })
	if st.PC != 0x100-8 {
		t.Errorf("s_branch -2: PC = %x", st.PC)
	}
}

func TestTableConsistent(t *testing.T) {
	n := map[Arch]int{}
	for _, e := range All() {
		n[e.Arch]++
		if e.Exec == nil || e.Name == "" {
			t.Errorf("%s incomplete", e.Key)
		}
	}
	t.Logf("entries: %v", n)
	if !SameInBoth(isaenc.SOP2, 0) || SameInBoth(isaenc.VOP2, 23) || SameInBoth(isaenc.VOP2, 52) {
		t.Errorf("SameInBoth")
	}
}
