package isaspec

import (
	"verif/lib/isaenc"
)

// Memory instructions: SMEM loads, FLAT/GLOBAL loads and stores, DS (LDS)
// reads and writes.
//
// Domain restrictions (stated, not verdicts): accesses are naturally aligned
// (2 bytes for shorts, 4 bytes for everything from a dword up in memory;
// 4/8/16 bytes in LDS); LDS addresses lie inside the allocation; on GCN3 M0
// is not smaller than the LDS allocation (compilers set M0 = -1 before any DS
// instruction). A description outside these restrictions panics with
// Unsupported.

func (c *ctx) smemLoad(n int) {
	d := c.d
	base := c.s64(d.Base, false)
	var off uint64
	switch d.Offset.Kind {
	case isaenc.KImm:
		off = uint64(d.Offset.N) // 20-bit unsigned byte offset
	case isaenc.KNone:
		off = 0
	default:
		off = uint64(c.s32(d.Offset))
	}
	addr := base + off
	if addr&3 != 0 {
		// DOUBT: the manuals say scalar loads are dword-aligned; whether the low
		// bits are dropped or the access faults is not modelled.
		unsupported("SMEM address 0x%x is not dword-aligned", addr)
	}
	raw := c.st.memRead(addr, 4*n)
	if c.st.Fault != "" {
		return
	}
	v := make([]uint32, n)
	for i := range v {
		v[i] = le32(raw[4*i:])
	}
	c.wsN(d.Data, v)
}

// flatAddr computes the address of one lane.
func (c *ctx) flatAddr(lane int) uint64 {
	d := c.d
	if d.LDS || d.TFE {
		unsupported("FLAT lds/tfe bits")
	}
	if c.arch == GCN3 {
		// GCN3 FLAT: no offset, no segment, no SADDR field (reserved, zero).
		if d.FlatOffset != 0 || d.Seg != 0 || d.SAddr.Present() {
			unsupported("gfx9 FLAT fields on GCN3")
		}
		return c.v64(d.Addr, lane, false)
	}
	switch d.Seg {
	case 0: // FLAT: 64-bit VGPR address + 12-bit unsigned offset; SADDR unused
		if d.FlatOffset < 0 || d.FlatOffset > 4095 {
			unsupported("flat-segment offset %d outside the 12-bit unsigned range", d.FlatOffset)
		}
		if d.SAddr.Present() {
			// DOUBT: the field is documented as unused for the flat segment
			unsupported("SADDR given for the flat segment")
		}
		return c.v64(d.Addr, lane, false) + uint64(d.FlatOffset)
	case 2: // GLOBAL
		off := uint64(int64(d.FlatOffset)) // 13-bit signed
		if d.SAddr.Kind == isaenc.KOff {
			return c.v64(d.Addr, lane, false) + off
		}
		if !d.SAddr.Present() {
			// the field then encodes 0 = s[0:1]
			return c.s64(isaenc.S(0), false) + uint64(c.v32(d.Addr, lane)) + off
		}
		return c.s64(d.SAddr, false) + uint64(c.v32(d.Addr, lane)) + off
	}
	unsupported("FLAT segment %d", d.Seg)
	return 0
}

func needAlign(addr uint64, bytes int) {
	a := uint64(bytes)
	if a > 4 {
		a = 4
	}
	if addr%a != 0 {
		unsupported("memory access of %d bytes at 0x%x is not naturally aligned", bytes, addr)
	}
}

func (c *ctx) flatLoad(bytes int, signed bool) {
	d := c.d
	for lane := 0; lane < 64; lane++ {
		if !c.active(lane) {
			continue
		}
		addr := c.flatAddr(lane)
		needAlign(addr, bytes)
		raw := c.st.memRead(addr, bytes)
		if c.st.Fault != "" {
			return
		}
		switch bytes {
		case 1:
			v := uint32(raw[0])
			if signed {
				v = uint32(int32(int8(raw[0])))
			}
			c.wv32(d.Dst, lane, v)
		case 2:
			v := uint32(raw[0]) | uint32(raw[1])<<8
			if signed {
				v = uint32(int32(int16(v)))
			}
			c.wv32(d.Dst, lane, v)
		default:
			v := make([]uint32, bytes/4)
			for i := range v {
				v[i] = le32(raw[4*i:])
			}
			c.wvN(d.Dst, lane, v)
		}
	}
}

// store writes bytes of one lane to memory, tracking conflicts between lanes.
func (c *ctx) memStore(log *writeLog, lane int, addr uint64, data []byte) {
	if !c.st.memMapped(addr, len(data)) {
		c.st.fault("memory write of %d bytes at 0x%x touches an unmapped address", len(data), addr)
		return
	}
	for i, b := range data {
		a := addr + uint64(i)
		if prev, seen := log.val[a]; seen && prev != b {
			c.st.Marks = append(c.st.Marks, Mark{Kind: CellMem, Addr: a, Mask: 0xff, Why: "lane-conflict"})
			c.st.Note("lane-conflict")
		}
		log.val[a] = b
		log.lane[a] = lane
		c.st.Mem.Store(a, b)
	}
}

func (c *ctx) flatStore(bytes int) {
	d := c.d
	log := newWriteLog()
	n := (bytes + 3) / 4
	for lane := 0; lane < 64; lane++ {
		if !c.active(lane) {
			continue
		}
		addr := c.flatAddr(lane)
		needAlign(addr, bytes)
		regs := c.vN(d.Data, lane, n)
		data := make([]byte, 4*n)
		for i, r := range regs {
			put32(data[4*i:], r)
		}
		c.memStore(log, lane, addr, data[:bytes])
		if c.st.Fault != "" {
			return
		}
	}
}

// ---------------------------------------------------------------------------
// DS

func (c *ctx) ldsAddr(lane int, off uint64, bytes int) uint64 {
	if c.d.GDS {
		unsupported("GDS")
	}
	if c.arch == GCN3 && uint64(c.st.M0) < uint64(len(c.st.LDS)) {
		unsupported("GCN3 DS access with M0 below the LDS allocation (clamp not modelled)")
	}
	a := uint64(c.v32(c.d.Addr, lane)) + off
	if a+uint64(bytes) > uint64(len(c.st.LDS)) {
		// the manuals: out-of-range reads return 0, writes are dropped; kept out of the domain
		unsupported("LDS access of %d bytes at 0x%x outside the %d-byte allocation", bytes, a, len(c.st.LDS))
	}
	al := uint64(bytes)
	if al == 12 {
		al = 16
	}
	if a%al != 0 {
		unsupported("LDS access of %d bytes at 0x%x is not naturally aligned", bytes, a)
	}
	return a
}

func (c *ctx) ldsRead(a uint64, bytes int) []uint32 {
	n := (bytes + 3) / 4
	buf := make([]byte, 4*n)
	copy(buf, c.st.LDS[a:a+uint64(bytes)])
	out := make([]uint32, n)
	for i := range out {
		out[i] = le32(buf[4*i:])
	}
	return out
}

func (c *ctx) ldsWrite(log *writeLog, lane int, a uint64, regs []uint32, bytes int) {
	data := make([]byte, 4*len(regs))
	for i, r := range regs {
		put32(data[4*i:], r)
	}
	for i := 0; i < bytes; i++ {
		x := a + uint64(i)
		if prev, seen := log.val[x]; seen && prev != data[i] {
			c.st.Marks = append(c.st.Marks, Mark{Kind: CellLDS, Index: int(x), Mask: 0xff, Why: "lane-conflict"})
			c.st.Note("lane-conflict")
		}
		log.val[x] = data[i]
		log.lane[x] = lane
		c.st.LDS[x] = data[i]
	}
}

func dsRead(as archSet, op int, name string, bytes int, signed bool) {
	t := TB32
	switch bytes {
	case 8:
		t = TB64
	case 12:
		t = TB96
	case 16:
		t = TB128
	}
	reg(as, isaenc.DS, op, Info{Name: name, Src: [3]OpType{}, Dst: t, Mem: "ds-read", Bytes: bytes, Stride: 1}, func(c *ctx) {
		off := uint64(c.d.Offset0) | uint64(c.d.Offset1)<<8 // 16-bit unsigned byte offset
		for lane := 0; lane < 64; lane++ {
			if !c.active(lane) {
				continue
			}
			a := c.ldsAddr(lane, off, bytes)
			v := c.ldsRead(a, bytes)
			switch {
			case bytes == 1 && signed:
				v[0] = uint32(int32(int8(v[0])))
			case bytes == 2 && signed:
				v[0] = uint32(int32(int16(v[0])))
			}
			c.wvN(c.d.Dst, lane, v)
		}
	})
}

func dsRead2(as archSet, op int, name string, bytes, stride int) {
	t := TB64
	if bytes == 8 {
		t = TB128
	}
	reg(as, isaenc.DS, op, Info{Name: name, Dst: t, Mem: "ds-read", Bytes: bytes, Two: true, Stride: stride}, func(c *ctx) {
		for lane := 0; lane < 64; lane++ {
			if !c.active(lane) {
				continue
			}
			a0 := c.ldsAddr(lane, uint64(c.d.Offset0)*uint64(stride), bytes)
			a1 := c.ldsAddr(lane, uint64(c.d.Offset1)*uint64(stride), bytes)
			v := append(c.ldsRead(a0, bytes), c.ldsRead(a1, bytes)...)
			c.wvN(c.d.Dst, lane, v)
		}
	})
}

func dsWrite(as archSet, op int, name string, bytes int) {
	t := TB32
	switch bytes {
	case 8:
		t = TB64
	case 12:
		t = TB96
	case 16:
		t = TB128
	}
	// Src[0] describes DATA0
	reg(as, isaenc.DS, op, Info{Name: name, Src: [3]OpType{t}, Mem: "ds-write", Bytes: bytes, Stride: 1}, func(c *ctx) {
		off := uint64(c.d.Offset0) | uint64(c.d.Offset1)<<8
		log := newWriteLog()
		for lane := 0; lane < 64; lane++ {
			if !c.active(lane) {
				continue
			}
			a := c.ldsAddr(lane, off, bytes)
			c.ldsWrite(log, lane, a, c.vN(c.d.Data, lane, (bytes+3)/4), bytes)
		}
	})
}

func dsWrite2(as archSet, op int, name string, bytes, stride int) {
	t := TB32
	if bytes == 8 {
		t = TB64
	}
	reg(as, isaenc.DS, op, Info{Name: name, Src: [3]OpType{t, t}, Mem: "ds-write", Bytes: bytes, Two: true, Stride: stride}, func(c *ctx) {
		log := newWriteLog()
		for lane := 0; lane < 64; lane++ {
			if !c.active(lane) {
				continue
			}
			a0 := c.ldsAddr(lane, uint64(c.d.Offset0)*uint64(stride), bytes)
			a1 := c.ldsAddr(lane, uint64(c.d.Offset1)*uint64(stride), bytes)
			d0 := c.vN(c.d.Data, lane, bytes/4)
			d1 := c.vN(c.d.Data1, lane, bytes/4)
			c.ldsWrite(log, lane, a0, d0, bytes)
			c.ldsWrite(log, lane, a1, d1, bytes)
		}
	})
}

func init() {
	// ----- SMEM (GCN3 opcodes 0..4; CDNA3 keeps the numbers) -----------------
	for i, n := range []int{1, 2, 4, 8, 16} {
		n := n
		name := "s_load_dword"
		if n > 1 {
			name += "x" + itoa(n)
		}
		reg(both, isaenc.SMEM, i, Info{Name: name, Mem: "smem", Bytes: 4 * n}, func(c *ctx) { c.smemLoad(n) })
	}

	// ----- FLAT ---------------------------------------------------------------
	type fl struct {
		op     int
		name   string
		bytes  int
		signed bool
	}
	for _, f := range []fl{
		{16, "flat_load_ubyte", 1, false}, {17, "flat_load_sbyte", 1, true},
		{18, "flat_load_ushort", 2, false}, {19, "flat_load_sshort", 2, true},
		{20, "flat_load_dword", 4, false}, {21, "flat_load_dwordx2", 8, false},
		{22, "flat_load_dwordx3", 12, false}, {23, "flat_load_dwordx4", 16, false},
	} {
		f := f
		reg(both, isaenc.FLAT, f.op, Info{Name: f.name, Mem: "flat-load", Bytes: f.bytes}, func(c *ctx) { c.flatLoad(f.bytes, f.signed) })
	}
	for _, f := range []fl{
		{24, "flat_store_byte", 1, false}, {26, "flat_store_short", 2, false},
		{28, "flat_store_dword", 4, false}, {29, "flat_store_dwordx2", 8, false},
		{30, "flat_store_dwordx3", 12, false}, {31, "flat_store_dwordx4", 16, false},
	} {
		f := f
		reg(both, isaenc.FLAT, f.op, Info{Name: f.name, Mem: "flat-store", Bytes: f.bytes}, func(c *ctx) { c.flatStore(f.bytes) })
	}

	// ----- DS -----------------------------------------------------------------
	dsWrite(both, 13, "ds_write_b32", 4)
	dsWrite2(both, 14, "ds_write2_b32", 4, 4)
	dsWrite2(both, 15, "ds_write2st64_b32", 4, 4*64)
	dsWrite(both, 30, "ds_write_b8", 1)
	dsWrite(both, 31, "ds_write_b16", 2)
	dsRead(both, 54, "ds_read_b32", 4, false)
	dsRead2(both, 55, "ds_read2_b32", 4, 4)
	dsRead2(both, 56, "ds_read2st64_b32", 4, 4*64)
	dsRead(both, 57, "ds_read_i8", 1, true)
	dsRead(both, 58, "ds_read_u8", 1, false)
	dsRead(both, 59, "ds_read_i16", 2, true)
	dsRead(both, 60, "ds_read_u16", 2, false)
	dsWrite(both, 77, "ds_write_b64", 8)
	dsWrite2(both, 78, "ds_write2_b64", 8, 8)
	dsWrite2(both, 79, "ds_write2st64_b64", 8, 8*64)
	dsRead(both, 118, "ds_read_b64", 8, false)
	dsRead2(both, 119, "ds_read2_b64", 8, 8)
	dsRead2(both, 120, "ds_read2st64_b64", 8, 8*64)
	dsWrite(both, 222, "ds_write_b96", 12)
	dsWrite(both, 223, "ds_write_b128", 16)
	dsRead(both, 254, "ds_read_b96", 12, false)
	dsRead(both, 255, "ds_read_b128", 16, false)
}

func itoa(n int) string {
	if n == 0 {
		return "0"
	}
	s := ""
	for n > 0 {
		s = string(rune('0'+n%10)) + s
		n /= 10
	}
	return s
}
