package isaspec

import (
	"math"
	"math/bits"

	"verif/lib/isaenc"
)

// Vector ALU. Every operation is written once as a per-lane function and is
// registered under its 32-bit encoding (VOP1 / VOP2 / VOPC) and under its VOP3
// encoding: VOP3 opcode = VOPC opcode, 256 + VOP2 opcode, 320 + VOP1 opcode
// (GCN3 manual, "VOP3a/VOP3b opcode ranges"; unchanged in gfx9 / CDNA3).
//
// Rules common to all of them (manuals, "Vector ALU operations"):
//   - only lanes whose EXEC bit is set compute and write their destination
//     VGPR; all source operands are read before anything is written;
//   - compares write one bit per lane to VCC (VOPC) or to the SGPR pair named
//     by VDST (VOP3); bits of inactive lanes are written as 0;
//   - carry-out of the integer add/sub family goes to VCC (VOP2) or SDST
//     (VOP3b). DOUBT: the manuals' pseudo code assigns the bit of active lanes
//     only and does not say what the bits of inactive lanes become; they are
//     left unconstrained here.

func (c *ctx) forActive(f func(lane int)) {
	for lane := 0; lane < 64; lane++ {
		if c.active(lane) {
			f(lane)
		}
	}
}

func isVOP3(d isaenc.Desc) bool { return d.Format == isaenc.VOP3a || d.Format == isaenc.VOP3b }

// vop1 registers a one-source operation.
func vop1(as archSet, op int, name string, src, dst OpType, fn func(c *ctx, lane int)) {
	info := Info{Name: name, Src: [3]OpType{src}, Dst: dst}
	body := func(c *ctx) { c.forActive(func(lane int) { fn(c, lane) }) }
	reg(as, isaenc.VOP1, op, info, body)
	info.Name = name + "_e64"
	reg(as, isaenc.VOP3a, 320+op, info, body)
}

// vop2 registers a two-source operation.
func vop2(as archSet, op int, name string, s0, s1, dst OpType, readsDst bool, fn func(c *ctx, lane int)) {
	info := Info{Name: name, Src: [3]OpType{s0, s1}, Dst: dst, ReadsDst: readsDst}
	body := func(c *ctx) { c.forActive(func(lane int) { fn(c, lane) }) }
	reg(as, isaenc.VOP2, op, info, body)
	info.Name = name + "_e64"
	reg(as, isaenc.VOP3a, 256+op, info, body)
}

// vop3 registers a VOP3-only operation.
func vop3(as archSet, op int, name string, s0, s1, s2, dst OpType, fn func(c *ctx, lane int)) {
	info := Info{Name: name, Src: [3]OpType{s0, s1, s2}, Dst: dst}
	reg(as, isaenc.VOP3a, op, info, func(c *ctx) { c.forActive(func(lane int) { fn(c, lane) }) })
}

// binU / binF / binD: simple per-lane binary operations.
func binU(f func(a, b uint32) uint32) func(c *ctx, lane int) {
	return func(c *ctx, lane int) {
		c.dstU(lane, f(c.srcU(0, lane), c.srcU(1, lane)))
	}
}

func binF(f func(a, b uint32) uint32) func(c *ctx, lane int) {
	return func(c *ctx, lane int) {
		a, b := c.srcF(0, lane), c.srcF(1, lane)
		c.dstF(lane, f(a, b), fpIn32(a, b))
	}
}

func sext24(v uint32) int64 { return int64(int32(v<<8) >> 8) }

// cmpDst returns the operand that receives a compare's lane mask.
func (c *ctx) cmpDst() isaenc.Operand {
	if c.d.Format == isaenc.VOPC {
		return isaenc.VCC()
	}
	return c.d.Dst
}

type laneCmp func(c *ctx, lane int) (result bool, dontCare string)

func vopc(as archSet, op int, name string, t OpType, f laneCmp) {
	info := Info{Name: name, Src: [3]OpType{t, t}, SDst: TMask, WritesVCC: true}
	body := func(c *ctx) {
		c.noOutMods()
		var mask uint64
		type dc struct {
			lane int
			why  string
		}
		var dcs []dc
		c.forActive(func(lane int) {
			r, why := f(c, lane)
			if r {
				mask |= 1 << uint(lane)
			}
			if why != "" {
				dcs = append(dcs, dc{lane, why})
			}
		})
		dst := c.cmpDst()
		c.ws64(dst, mask)
		for _, x := range dcs {
			c.markMaskBit(dst, x.lane, x.why)
		}
	}
	reg(as, isaenc.VOPC, op, info, body)
	info3 := info
	info3.Name = name + "_e64"
	info3.WritesVCC = false
	info3.ScalarDst = true
	info3.Dst = TMask
	info3.SDst = TNone
	reg(as, isaenc.VOP3a, op, info3, body)
}

// fcmp evaluates one of the 16 floating-point relations (index within its
// group of 16 opcodes): F LT EQ LE GT LG GE O U NGE NLG NGT NLE NEQ NLT TRU.
func fcmp(rel int, a, b float64) bool {
	nan := math.IsNaN(a) || math.IsNaN(b)
	switch rel {
	case 0:
		return false
	case 1:
		return a < b
	case 2:
		return a == b
	case 3:
		return a <= b
	case 4:
		return a > b
	case 5:
		return a < b || a > b // LG: ordered and not equal
	case 6:
		return a >= b
	case 7:
		return !nan
	case 8:
		return nan
	case 9:
		return !(a >= b)
	case 10:
		return !(a < b || a > b)
	case 11:
		return !(a > b)
	case 12:
		return !(a <= b)
	case 13:
		return !(a == b)
	case 14:
		return !(a < b)
	}
	return true
}

var fcmpNames = []string{"f", "lt", "eq", "le", "gt", "lg", "ge", "o", "u", "nge", "nlg", "ngt", "nle", "neq", "nlt", "tru"}

// icmp evaluates one of the 8 integer relations: F LT EQ LE GT NE GE T.
func icmp(rel int, a, b int64, ua, ub uint64, signed bool) bool {
	var lt, eq bool
	if signed {
		lt, eq = a < b, a == b
	} else {
		lt, eq = ua < ub, ua == ub
	}
	switch rel {
	case 0:
		return false
	case 1:
		return lt
	case 2:
		return eq
	case 3:
		return lt || eq
	case 4:
		return !lt && !eq
	case 5:
		return !eq
	case 6:
		return !lt
	}
	return true
}

var icmpNames = []string{"f", "lt", "eq", "le", "gt", "ne", "ge", "t"}

// classF32 implements the V_CMP_CLASS_F32 test mask.
func classF32(x uint32, mask uint32) bool {
	neg := x>>31 != 0
	var bit uint
	switch {
	case isSNaN32(x):
		bit = 0
	case isNaN32(x):
		bit = 1
	case isInf32(x):
		bit = 9
		if neg {
			bit = 2
		}
	case isZero32(x):
		bit = 6
		if neg {
			bit = 5
		}
	case isDenorm32(x):
		bit = 7
		if neg {
			bit = 4
		}
	default:
		bit = 8
		if neg {
			bit = 3
		}
	}
	return mask>>bit&1 != 0
}

// carry operations -----------------------------------------------------------

type carryFn func(a, b uint32, cin uint32) (d uint32, cout bool)

// vopCarry registers VOP2 (carry in/out through VCC) and VOP3b (SDST / SRC2)
// forms of the add/sub-with-carry family.
func vopCarry(as archSet, op2, op3b int, name string, usesCin bool, f carryFn) {
	run := func(c *ctx) {
		c.noOutMods()
		vop3b := c.d.Format == isaenc.VOP3b
		var cinMask uint64
		if usesCin {
			if vop3b {
				cinMask = c.s64(c.d.Src2, false)
			} else {
				cinMask = c.st.VCC
			}
		}
		var out uint64
		c.forActive(func(lane int) {
			a, b := c.srcU(0, lane), c.srcU(1, lane)
			d, co := f(a, b, uint32(cinMask>>uint(lane)&1))
			c.wv32(c.d.Dst, lane, c.sdwaDst(lane, d))
			if co {
				out |= 1 << uint(lane)
			}
		})
		dst := isaenc.VCC()
		if vop3b {
			dst = c.d.SDst
		}
		// active lanes receive their carry; DOUBT about inactive lanes (see top of file)
		old := c.s64(dst, false)
		exec := c.st.EXEC
		c.ws64(dst, old&^exec|out&exec)
		if ^exec != 0 {
			switch dst.Kind {
			case isaenc.KSGPR:
				c.st.Marks = append(c.st.Marks,
					Mark{Kind: CellSGPR, Index: int(dst.N), Mask: uint64(uint32(^exec)), Why: "carry-out-inactive-lanes"},
					Mark{Kind: CellSGPR, Index: int(dst.N) + 1, Mask: uint64(uint32(^exec >> 32)), Why: "carry-out-inactive-lanes"})
			case isaenc.KVCC, isaenc.KVCCLo:
				c.st.Marks = append(c.st.Marks, Mark{Kind: CellVCC, Mask: ^exec, Why: "carry-out-inactive-lanes"})
			default:
				unsupported("carry-out destination of kind %q", dst.Kind)
			}
		}
	}
	info := Info{Name: name, Src: [3]OpType{TU32, TU32}, Dst: TU32, SDst: TMask, WritesVCC: true, ReadsVCC: usesCin}
	reg(as, isaenc.VOP2, op2, info, run)
	info3 := Info{Name: name + "_e64", Src: [3]OpType{TU32, TU32}, Dst: TU32, SDst: TMask}
	if usesCin {
		info3.Src[2] = TMask
	}
	reg(as, isaenc.VOP3b, op3b, info3, run)
}

func med3u(a, b, c uint32) uint32 {
	if a > b {
		a, b = b, a
	}
	if b > c {
		b = c
	}
	if a > b {
		b = a
	}
	return b
}

func med3i(a, b, c int32) int32 {
	if a > b {
		a, b = b, a
	}
	if b > c {
		b = c
	}
	if a > b {
		b = a
	}
	return b
}

func init() {
	// ===== VOP1 ===============================================================
	vop1(both, 1, "v_mov_b32", TB32, TB32, func(c *ctx, lane int) { c.dstU(lane, c.srcU(0, lane)) })
	rfl := func(c *ctx) {
		// v_readfirstlane_b32: the value of the first active lane (lane 0 when EXEC is 0) goes to an SGPR
		lane := 0
		if c.st.EXEC != 0 {
			lane = bits.TrailingZeros64(c.st.EXEC)
		}
		c.noOutMods()
		c.ws32(c.d.Dst, c.srcU(0, lane))
	}
	reg(both, isaenc.VOP1, 2, Info{Name: "v_readfirstlane_b32", Src: [3]OpType{TB32}, Dst: TB32, ScalarDst: true}, rfl)
	reg(both, isaenc.VOP3a, 322, Info{Name: "v_readfirstlane_b32_e64", Src: [3]OpType{TB32}, Dst: TB32, ScalarDst: true}, rfl)

	vop1(both, 4, "v_cvt_f64_i32", TI32, TF64, func(c *ctx, lane int) {
		c.dstD(lane, b64(float64(int32(c.srcU(0, lane)))), "")
	})
	vop1(both, 5, "v_cvt_f32_i32", TI32, TF32, func(c *ctx, lane int) {
		c.dstF(lane, b32(float32(int32(c.srcU(0, lane)))), "")
	})
	vop1(both, 6, "v_cvt_f32_u32", TU32, TF32, func(c *ctx, lane int) {
		c.dstF(lane, b32(float32(c.srcU(0, lane))), "")
	})
	vop1(both, 7, "v_cvt_u32_f32", TF32, TU32, func(c *ctx, lane int) {
		// truncate toward zero; out-of-range values (and infinities) saturate; NaN -> 0
		x := c.srcF(0, lane)
		f := float64(f32(x))
		var d uint32
		switch {
		case isNaN32(x):
			d = 0
		case f <= -1:
			d = 0
		case f >= 4294967296.0:
			d = 0xffffffff
		default:
			t := math.Trunc(f)
			if t < 0 {
				t = 0
			}
			d = uint32(t)
		}
		c.noOutMods()
		c.wv32(c.d.Dst, lane, c.sdwaDst(lane, d))
	})
	vop1(both, 8, "v_cvt_i32_f32", TF32, TI32, func(c *ctx, lane int) {
		x := c.srcF(0, lane)
		f := float64(f32(x))
		var d uint32
		switch {
		case isNaN32(x):
			d = 0
		case f >= 2147483648.0:
			d = 0x7fffffff
		case f <= -2147483648.0:
			d = 0x80000000
		default:
			d = uint32(int32(math.Trunc(f)))
		}
		c.noOutMods()
		c.wv32(c.d.Dst, lane, c.sdwaDst(lane, d))
	})
	vop1(both, 10, "v_cvt_f16_f32", TF32, TF16, func(c *ctx, lane int) {
		x := c.srcF(0, lane)
		h := f32ToF16(x)
		reg := int(c.d.Dst.N)
		if c.d.SDWA != nil || c.d.Omod != 0 || c.d.Clamp {
			unsupported("modifiers on v_cvt_f16_f32")
		}
		c.wv32(c.d.Dst, lane, uint32(h))
		// DOUBT: whether the upper 16 bits of the destination are zeroed or preserved
		m := Mark{Kind: CellVGPR, Index: reg, Lane: lane, Mask: 0xffff0000, Why: "f16-upper-half"}
		switch {
		case isDenorm32(x):
			m.Mask, m.Why = 0xffffffff, "denorm-in"
		case isDenorm16(h) || h&0x7fff == 0x0400:
			m.Mask, m.Why = 0xffffffff, "denorm-out"
		case isNaN16(h):
			c.st.Marks = append(c.st.Marks, Mark{Kind: CellVGPR, Index: reg, Lane: lane, NaN: 16, Why: "nan-result"})
		}
		c.st.Marks = append(c.st.Marks, m)
		c.st.Note(m.Why)
	})
	vop1(both, 11, "v_cvt_f32_f16", TF16, TF32, func(c *ctx, lane int) {
		if isVOP3(c.d) && (c.d.Abs != 0 || c.d.Neg != 0) || c.d.SDWA != nil {
			unsupported("modifiers on v_cvt_f32_f16")
		}
		h := uint16(c.v32(c.d.Src0, lane))
		if c.d.Src0.Kind == isaenc.KFloat {
			h = inlineFloat16(c.d.Src0.F)
		}
		dc := ""
		if isDenorm16(h) {
			dc = "denorm-in"
		}
		c.dstF(lane, f16ToF32(h), dc)
	})
	vop1(both, 15, "v_cvt_f32_f64", TF64, TF32, func(c *ctx, lane int) {
		x := c.srcD(0, lane)
		c.dstF(lane, b32(float32(f64(x))), fpIn64(x))
	})
	vop1(both, 16, "v_cvt_f64_f32", TF32, TF64, func(c *ctx, lane int) {
		x := c.srcF(0, lane)
		c.dstD(lane, b64(float64(f32(x))), fpIn32(x))
	})
	for i := 0; i < 4; i++ {
		sh := uint(8 * i)
		vop1(both, 17+i, "v_cvt_f32_ubyte"+itoa(i), TB32, TF32, func(c *ctx, lane int) {
			c.dstF(lane, b32(float32(c.srcU(0, lane)>>sh&0xff)), "")
		})
	}
	vop1(both, 22, "v_cvt_f64_u32", TU32, TF64, func(c *ctx, lane int) {
		c.dstD(lane, b64(float64(c.srcU(0, lane))), "")
	})
	vop1(both, 28, "v_trunc_f32", TF32, TF32, func(c *ctx, lane int) {
		x := c.srcF(0, lane)
		c.dstF(lane, b32(float32(math.Trunc(float64(f32(x))))), fpIn32(x))
	})
	vop1(both, 30, "v_rndne_f32", TF32, TF32, func(c *ctx, lane int) {
		x := c.srcF(0, lane)
		c.dstF(lane, b32(float32(math.RoundToEven(float64(f32(x))))), fpIn32(x))
	})
	vop1(both, 43, "v_not_b32", TB32, TB32, func(c *ctx, lane int) { c.dstU(lane, ^c.srcU(0, lane)) })
	vop1(both, 44, "v_bfrev_b32", TB32, TB32, func(c *ctx, lane int) { c.dstU(lane, bits.Reverse32(c.srcU(0, lane))) })
	vop1(both, 45, "v_ffbh_u32", TB32, TB32, func(c *ctx, lane int) {
		x := c.srcU(0, lane)
		d := uint32(0xffffffff)
		if x != 0 {
			d = uint32(bits.LeadingZeros32(x))
		}
		c.dstU(lane, d)
	})
	vop1(both, 46, "v_ffbl_b32", TB32, TB32, func(c *ctx, lane int) {
		x := c.srcU(0, lane)
		d := uint32(0xffffffff)
		if x != 0 {
			d = uint32(bits.TrailingZeros32(x))
		}
		c.dstU(lane, d)
	})
	// gfx90a+ : VOP1 0x38 is v_mov_b64
	vop1(onlyCDNA3, 56, "v_mov_b64", TB64, TB64, func(c *ctx, lane int) {
		c.noOutMods()
		c.wv64(c.d.Dst, lane, c.srcQ(0, lane))
	})

	// ===== VOP2 ===============================================================
	cnd := func(c *ctx) {
		c.noOutMods()
		mask := c.st.VCC
		if isVOP3(c.d) {
			mask = c.s64(c.d.Src2, false)
		}
		if c.d.SDWA != nil {
			unsupported("SDWA v_cndmask_b32")
		}
		c.forActive(func(lane int) {
			// float modifiers are legal on the VOP3 form and act on the sign bit
			a, b := c.srcF(0, lane), c.srcF(1, lane)
			if mask>>uint(lane)&1 != 0 {
				c.wv32(c.d.Dst, lane, b)
			} else {
				c.wv32(c.d.Dst, lane, a)
			}
		})
	}
	reg(both, isaenc.VOP2, 0, Info{Name: "v_cndmask_b32", Src: [3]OpType{TB32, TB32}, Dst: TB32, ReadsVCC: true}, cnd)
	reg(both, isaenc.VOP3a, 256, Info{Name: "v_cndmask_b32_e64", Src: [3]OpType{TB32, TB32, TMask}, Dst: TB32}, cnd)

	vop2(both, 1, "v_add_f32", TF32, TF32, TF32, false, binF(addF32))
	vop2(both, 2, "v_sub_f32", TF32, TF32, TF32, false, binF(subF32))
	vop2(both, 3, "v_subrev_f32", TF32, TF32, TF32, false, binF(func(a, b uint32) uint32 { return subF32(b, a) }))
	vop2(onlyGCN3, 4, "v_mul_legacy_f32", TF32, TF32, TF32, false, func(c *ctx, lane int) {
		a, b := c.srcF(0, lane), c.srcF(1, lane)
		if isZero32(a) || isZero32(b) {
			// DX9 rule: 0 * anything = 0. DOUBT: the sign of that zero.
			dc := fpIn32(a, b)
			c.dstF(lane, 0, dc)
			if dc == "" {
				c.st.Marks = append(c.st.Marks, Mark{Kind: CellVGPR, Index: int(c.d.Dst.N), Lane: lane, Mask: 0x80000000, Why: "legacy-zero-sign"})
			}
			return
		}
		c.dstF(lane, mulF32(a, b), fpIn32(a, b))
	})
	vop2(both, 5, "v_mul_f32", TF32, TF32, TF32, false, binF(mulF32))
	vop2(both, 6, "v_mul_i32_i24", TI24, TI24, TI32, false, binU(func(a, b uint32) uint32 { return uint32(sext24(a) * sext24(b)) }))
	vop2(both, 7, "v_mul_hi_i32_i24", TI24, TI24, TI32, false, binU(func(a, b uint32) uint32 { return uint32(uint64(sext24(a)*sext24(b)) >> 32) }))
	vop2(both, 8, "v_mul_u32_u24", TU24, TU24, TU32, false, binU(func(a, b uint32) uint32 { return uint32(uint64(a&0xffffff) * uint64(b&0xffffff)) }))
	vop2(both, 9, "v_mul_hi_u32_u24", TU24, TU24, TU32, false, binU(func(a, b uint32) uint32 { return uint32(uint64(a&0xffffff) * uint64(b&0xffffff) >> 32) }))
	vop2(both, 10, "v_min_f32", TF32, TF32, TF32, false, func(c *ctx, lane int) {
		a, b := c.srcF(0, lane), c.srcF(1, lane)
		r, dc := minmaxF32(a, b, false)
		if d := fpIn32(a, b); d != "" {
			dc = d
		}
		c.dstF(lane, r, dc)
	})
	vop2(both, 11, "v_max_f32", TF32, TF32, TF32, false, func(c *ctx, lane int) {
		a, b := c.srcF(0, lane), c.srcF(1, lane)
		r, dc := minmaxF32(a, b, true)
		if d := fpIn32(a, b); d != "" {
			dc = d
		}
		c.dstF(lane, r, dc)
	})
	vop2(both, 12, "v_min_i32", TI32, TI32, TI32, false, binU(func(a, b uint32) uint32 {
		if int32(a) < int32(b) {
			return a
		}
		return b
	}))
	vop2(both, 13, "v_max_i32", TI32, TI32, TI32, false, binU(func(a, b uint32) uint32 {
		if int32(a) > int32(b) {
			return a
		}
		return b
	}))
	vop2(both, 14, "v_min_u32", TU32, TU32, TU32, false, binU(func(a, b uint32) uint32 {
		if a < b {
			return a
		}
		return b
	}))
	vop2(both, 15, "v_max_u32", TU32, TU32, TU32, false, binU(func(a, b uint32) uint32 {
		if a > b {
			return a
		}
		return b
	}))
	vop2(both, 16, "v_lshrrev_b32", TSh, TB32, TB32, false, binU(func(a, b uint32) uint32 { return b >> (a & 31) }))
	vop2(both, 17, "v_ashrrev_i32", TSh, TI32, TI32, false, binU(func(a, b uint32) uint32 { return uint32(int32(b) >> (a & 31)) }))
	vop2(both, 18, "v_lshlrev_b32", TSh, TB32, TB32, false, binU(func(a, b uint32) uint32 { return b << (a & 31) }))
	vop2(both, 19, "v_and_b32", TB32, TB32, TB32, false, binU(func(a, b uint32) uint32 { return a & b }))
	vop2(both, 20, "v_or_b32", TB32, TB32, TB32, false, binU(func(a, b uint32) uint32 { return a | b }))
	vop2(both, 21, "v_xor_b32", TB32, TB32, TB32, false, binU(func(a, b uint32) uint32 { return a ^ b }))
	// v_mac_f32 / v_madmk_f32 / v_madak_f32: GCN3 only. gfx90a and later have no
	// MAD/MAC FP32 instructions; CDNA3 re-uses 23/24 for the fused v_fmamk/v_fmaak.
	mad := func(c *ctx, lane int, a, b, x uint32) {
		r, pd := madF32(a, b, x)
		dc := fpIn32(a, b, x)
		if dc == "" && pd {
			dc = "denorm-product"
		}
		c.dstF(lane, r, dc)
	}
	vop2(onlyGCN3, 22, "v_mac_f32", TF32, TF32, TF32, true, func(c *ctx, lane int) {
		mad(c, lane, c.srcF(0, lane), c.srcF(1, lane), c.st.VGPR[lane][c.d.Dst.N])
	})
	reg(onlyGCN3, isaenc.VOP2, 23, Info{Name: "v_madmk_f32", Src: [3]OpType{TF32, TF32, TF32}, Dst: TF32}, func(c *ctx) {
		c.forActive(func(lane int) { mad(c, lane, c.srcF(0, lane), c.s32(c.d.Src2), c.srcF(1, lane)) })
	})
	reg(onlyGCN3, isaenc.VOP2, 24, Info{Name: "v_madak_f32", Src: [3]OpType{TF32, TF32, TF32}, Dst: TF32}, func(c *ctx) {
		c.forActive(func(lane int) { mad(c, lane, c.srcF(0, lane), c.srcF(1, lane), c.s32(c.d.Src2)) })
	})
	fma3 := func(c *ctx, lane int, a, b, x uint32) { c.dstF(lane, c.fma32(a, b, x), fpIn32(a, b, x)) }
	reg(onlyCDNA3, isaenc.VOP2, 23, Info{Name: "v_fmamk_f32", Src: [3]OpType{TF32, TF32, TF32}, Dst: TF32}, func(c *ctx) {
		c.forActive(func(lane int) { fma3(c, lane, c.srcF(0, lane), c.s32(c.d.Src2), c.srcF(1, lane)) })
	})
	reg(onlyCDNA3, isaenc.VOP2, 24, Info{Name: "v_fmaak_f32", Src: [3]OpType{TF32, TF32, TF32}, Dst: TF32}, func(c *ctx) {
		c.forActive(func(lane int) { fma3(c, lane, c.srcF(0, lane), c.srcF(1, lane), c.s32(c.d.Src2)) })
	})
	vop2(onlyCDNA3, 59, "v_fmac_f32", TF32, TF32, TF32, true, func(c *ctx, lane int) {
		fma3(c, lane, c.srcF(0, lane), c.srcF(1, lane), c.st.VGPR[lane][c.d.Dst.N])
	})

	// GCN3 names: v_add_u32 ... v_subbrev_u32; gfx9 names: v_add_co_u32 ... (same semantics)
	vopCarry(both, 25, 281, "v_add_co_u32", false, func(a, b, _ uint32) (uint32, bool) {
		s := uint64(a) + uint64(b)
		return uint32(s), s>>32 != 0
	})
	vopCarry(both, 26, 282, "v_sub_co_u32", false, func(a, b, _ uint32) (uint32, bool) { return a - b, b > a })
	vopCarry(both, 27, 283, "v_subrev_co_u32", false, func(a, b, _ uint32) (uint32, bool) { return b - a, a > b })
	vopCarry(both, 28, 284, "v_addc_co_u32", true, func(a, b, cin uint32) (uint32, bool) {
		s := uint64(a) + uint64(b) + uint64(cin)
		return uint32(s), s>>32 != 0
	})
	vopCarry(both, 29, 285, "v_subb_co_u32", true, func(a, b, cin uint32) (uint32, bool) {
		return a - b - cin, uint64(b)+uint64(cin) > uint64(a)
	})
	vopCarry(both, 30, 286, "v_subbrev_co_u32", true, func(a, b, cin uint32) (uint32, bool) {
		return b - a - cin, uint64(a)+uint64(cin) > uint64(b)
	})

	// 16-bit integer operations. DOUBT: the upper half of the destination
	// (zeroed on gfx8/gfx9 according to the compiler sources, not stated in the
	// pseudo code) is left unconstrained.
	op16 := func(f func(a, b uint16) uint16) func(c *ctx, lane int) {
		return func(c *ctx, lane int) {
			if c.d.SDWA != nil {
				unsupported("SDWA on a 16-bit operation")
			}
			c.noOutMods()
			r := f(uint16(c.srcU(0, lane)), uint16(c.srcU(1, lane)))
			c.wv32(c.d.Dst, lane, uint32(r))
			c.st.Marks = append(c.st.Marks, Mark{Kind: CellVGPR, Index: int(c.d.Dst.N), Lane: lane, Mask: 0xffff0000, Why: "b16-upper-half"})
		}
	}
	vop2(both, 38, "v_add_u16", TB16, TB16, TB16, false, op16(func(a, b uint16) uint16 { return a + b }))
	vop2(both, 39, "v_sub_u16", TB16, TB16, TB16, false, op16(func(a, b uint16) uint16 { return a - b }))
	vop2(both, 40, "v_subrev_u16", TB16, TB16, TB16, false, op16(func(a, b uint16) uint16 { return b - a }))
	vop2(both, 41, "v_mul_lo_u16", TB16, TB16, TB16, false, op16(func(a, b uint16) uint16 { return a * b }))
	vop2(both, 42, "v_lshlrev_b16", TSh, TB16, TB16, false, op16(func(a, b uint16) uint16 { return b << (a & 15) }))
	vop2(both, 43, "v_lshrrev_b16", TSh, TB16, TB16, false, op16(func(a, b uint16) uint16 { return b >> (a & 15) }))
	vop2(both, 44, "v_ashrrev_i16", TSh, TB16, TB16, false, op16(func(a, b uint16) uint16 { return uint16(int16(b) >> (a & 15)) }))
	// gfx9: carry-less 32-bit add/sub
	vop2(onlyCDNA3, 52, "v_add_u32", TU32, TU32, TU32, false, binU(func(a, b uint32) uint32 { return a + b }))
	vop2(onlyCDNA3, 53, "v_sub_u32", TU32, TU32, TU32, false, binU(func(a, b uint32) uint32 { return a - b }))
	vop2(onlyCDNA3, 54, "v_subrev_u32", TU32, TU32, TU32, false, binU(func(a, b uint32) uint32 { return b - a }))

	// ===== VOPC ===============================================================
	vopc(both, 0x10, "v_cmp_class_f32", TF32, func(c *ctx, lane int) (bool, string) {
		x := c.srcF(0, lane)
		m := c.v32(c.d.Src1, lane)
		dc := ""
		if isDenorm32(x) {
			dc = "denorm-in" // DOUBT: whether the class test sees a flushed operand
		}
		return classF32(x, m), dc
	})
	for rel := 0; rel < 16; rel++ {
		rel := rel
		vopc(both, 0x40+rel, "v_cmp_"+fcmpNames[rel]+"_f32", TF32, func(c *ctx, lane int) (bool, string) {
			a, b := c.srcF(0, lane), c.srcF(1, lane)
			return fcmp(rel, float64(f32(a)), float64(f32(b))), fpIn32(a, b)
		})
		vopc(both, 0x60+rel, "v_cmp_"+fcmpNames[rel]+"_f64", TF64, func(c *ctx, lane int) (bool, string) {
			a, b := c.srcD(0, lane), c.srcD(1, lane)
			return fcmp(rel, f64(a), f64(b)), fpIn64(a, b)
		})
	}
	for rel := 0; rel < 8; rel++ {
		rel := rel
		vopc(both, 0xa0+rel, "v_cmp_"+icmpNames[rel]+"_i16", TB16, func(c *ctx, lane int) (bool, string) {
			a, b := int16(c.srcU(0, lane)), int16(c.srcU(1, lane))
			return icmp(rel, int64(a), int64(b), 0, 0, true), ""
		})
		vopc(both, 0xa8+rel, "v_cmp_"+icmpNames[rel]+"_u16", TB16, func(c *ctx, lane int) (bool, string) {
			a, b := uint16(c.srcU(0, lane)), uint16(c.srcU(1, lane))
			return icmp(rel, 0, 0, uint64(a), uint64(b), false), ""
		})
		vopc(both, 0xc0+rel, "v_cmp_"+icmpNames[rel]+"_i32", TI32, func(c *ctx, lane int) (bool, string) {
			a, b := int32(c.srcU(0, lane)), int32(c.srcU(1, lane))
			return icmp(rel, int64(a), int64(b), 0, 0, true), ""
		})
		vopc(both, 0xc8+rel, "v_cmp_"+icmpNames[rel]+"_u32", TU32, func(c *ctx, lane int) (bool, string) {
			a, b := c.srcU(0, lane), c.srcU(1, lane)
			return icmp(rel, 0, 0, uint64(a), uint64(b), false), ""
		})
		vopc(both, 0xe0+rel, "v_cmp_"+icmpNames[rel]+"_i64", TB64, func(c *ctx, lane int) (bool, string) {
			a, b := c.srcQ(0, lane), c.srcQ(1, lane)
			return icmp(rel, int64(a), int64(b), 0, 0, true), ""
		})
		vopc(both, 0xe8+rel, "v_cmp_"+icmpNames[rel]+"_u64", TB64, func(c *ctx, lane int) (bool, string) {
			a, b := c.srcQ(0, lane), c.srcQ(1, lane)
			return icmp(rel, 0, 0, a, b, false), ""
		})
	}

	// ===== VOP3 only ===========================================================
	vop3(onlyGCN3, 449, "v_mad_f32", TF32, TF32, TF32, TF32, func(c *ctx, lane int) {
		mad(c, lane, c.srcF(0, lane), c.srcF(1, lane), c.srcF(2, lane))
	})
	vop3(both, 450, "v_mad_i32_i24", TI24, TI24, TI32, TI32, func(c *ctx, lane int) {
		c.dstU(lane, uint32(sext24(c.srcU(0, lane))*sext24(c.srcU(1, lane)))+c.srcU(2, lane))
	})
	vop3(both, 451, "v_mad_u32_u24", TU24, TU24, TU32, TU32, func(c *ctx, lane int) {
		c.dstU(lane, uint32(uint64(c.srcU(0, lane)&0xffffff)*uint64(c.srcU(1, lane)&0xffffff))+c.srcU(2, lane))
	})
	vop3(both, 456, "v_bfe_u32", TB32, TSh, TSh, TB32, func(c *ctx, lane int) {
		c.dstU(lane, bfeU32(c.srcU(0, lane), uint(c.srcU(1, lane)&31), uint(c.srcU(2, lane)&31)))
	})
	vop3(both, 457, "v_bfe_i32", TI32, TSh, TSh, TB32, func(c *ctx, lane int) {
		c.dstU(lane, bfeI32(c.srcU(0, lane), uint(c.srcU(1, lane)&31), uint(c.srcU(2, lane)&31)))
	})
	vop3(both, 458, "v_bfi_b32", TB32, TB32, TB32, TB32, func(c *ctx, lane int) {
		m, a, b := c.srcU(0, lane), c.srcU(1, lane), c.srcU(2, lane)
		c.dstU(lane, m&a|^m&b)
	})
	vop3(both, 459, "v_fma_f32", TF32, TF32, TF32, TF32, func(c *ctx, lane int) {
		fma3(c, lane, c.srcF(0, lane), c.srcF(1, lane), c.srcF(2, lane))
	})
	vop3(both, 460, "v_fma_f64", TF64, TF64, TF64, TF64, func(c *ctx, lane int) {
		a, b, x := c.srcD(0, lane), c.srcD(1, lane), c.srcD(2, lane)
		c.dstD(lane, c.fma64(a, b, x), fpIn64(a, b, x))
	})
	vop3(both, 462, "v_alignbit_b32", TB32, TB32, TSh, TB32, func(c *ctx, lane int) {
		v := uint64(c.srcU(0, lane))<<32 | uint64(c.srcU(1, lane))
		c.dstU(lane, uint32(v>>(c.srcU(2, lane)&31)))
	})
	min3f := func(max bool) func(c *ctx, lane int) {
		return func(c *ctx, lane int) {
			a, b, x := c.srcF(0, lane), c.srcF(1, lane), c.srcF(2, lane)
			r, dc1 := minmaxF32(a, b, max)
			r, dc2 := minmaxF32(r, x, max)
			dc := fpIn32(a, b, x)
			if dc == "" {
				dc = dc1
			}
			if dc == "" {
				dc = dc2
			}
			c.dstF(lane, r, dc)
		}
	}
	tri := func(f func(a, b, c uint32) uint32) func(c *ctx, lane int) {
		return func(c *ctx, lane int) { c.dstU(lane, f(c.srcU(0, lane), c.srcU(1, lane), c.srcU(2, lane))) }
	}
	mn := func(a, b int32) int32 {
		if a < b {
			return a
		}
		return b
	}
	mx := func(a, b int32) int32 {
		if a > b {
			return a
		}
		return b
	}
	mnu := func(a, b uint32) uint32 {
		if a < b {
			return a
		}
		return b
	}
	mxu := func(a, b uint32) uint32 {
		if a > b {
			return a
		}
		return b
	}
	vop3(both, 464, "v_min3_f32", TF32, TF32, TF32, TF32, min3f(false))
	vop3(both, 465, "v_min3_i32", TI32, TI32, TI32, TI32, tri(func(a, b, x uint32) uint32 { return uint32(mn(mn(int32(a), int32(b)), int32(x))) }))
	vop3(both, 466, "v_min3_u32", TU32, TU32, TU32, TU32, tri(func(a, b, x uint32) uint32 { return mnu(mnu(a, b), x) }))
	vop3(both, 467, "v_max3_f32", TF32, TF32, TF32, TF32, min3f(true))
	vop3(both, 468, "v_max3_i32", TI32, TI32, TI32, TI32, tri(func(a, b, x uint32) uint32 { return uint32(mx(mx(int32(a), int32(b)), int32(x))) }))
	vop3(both, 469, "v_max3_u32", TU32, TU32, TU32, TU32, tri(func(a, b, x uint32) uint32 { return mxu(mxu(a, b), x) }))
	vop3(both, 470, "v_med3_f32", TF32, TF32, TF32, TF32, func(c *ctx, lane int) {
		a, b, x := c.srcF(0, lane), c.srcF(1, lane), c.srcF(2, lane)
		dc := fpIn32(a, b, x)
		if isNaN32(a) || isNaN32(b) || isNaN32(x) {
			// "if any source is NaN: D = MIN3(S0, S1, S2)"
			r, d1 := minmaxF32(a, b, false)
			r, d2 := minmaxF32(r, x, false)
			if dc == "" {
				dc = d1
			}
			if dc == "" {
				dc = d2
			}
			c.dstF(lane, r, dc)
			return
		}
		// "else if MAX3 == S0: D = MAX(S1,S2); else if MAX3 == S1: D = MAX(S0,S2); else D = MAX(S0,S1)"
		m3, _ := minmaxF32(a, b, true)
		m3, _ = minmaxF32(m3, x, true)
		var r uint32
		fm := f32(m3)
		switch {
		case fm == f32(a):
			r, _ = minmaxF32(b, x, true)
		case fm == f32(b):
			r, _ = minmaxF32(a, x, true)
		default:
			r, _ = minmaxF32(a, b, true)
		}
		if dc == "" && isZero32(r) && (isZero32(a) && isZero32(b) || isZero32(a) && isZero32(x) || isZero32(b) && isZero32(x)) && !(a>>31 == b>>31 && b>>31 == x>>31) {
			// DOUBT: "MAX3 == S0" on zeros of different sign: only the sign of the result is affected
			c.dstF(lane, r, "")
			c.st.Marks = append(c.st.Marks, Mark{Kind: CellVGPR, Index: int(c.d.Dst.N), Lane: lane, Mask: 0x80000000, Why: "med3-zero-sign"})
			return
		}
		c.dstF(lane, r, dc)
	})
	vop3(both, 471, "v_med3_i32", TI32, TI32, TI32, TI32, tri(func(a, b, x uint32) uint32 { return uint32(med3i(int32(a), int32(b), int32(x))) }))
	vop3(both, 472, "v_med3_u32", TU32, TU32, TU32, TU32, tri(med3u))

	// v_mad_u64_u32 is a VOP3b instruction: {carry, D.u64} = S0.u32 * S1.u32 + S2.u64
	reg(both, isaenc.VOP3b, 488, Info{Name: "v_mad_u64_u32", Src: [3]OpType{TU32, TU32, TB64}, Dst: TB64, SDst: TMask}, func(c *ctx) {
		c.noOutMods()
		var out uint64
		c.forActive(func(lane int) {
			p := uint64(c.srcU(0, lane)) * uint64(c.srcU(1, lane))
			s, carry := bits.Add64(p, c.srcQ(2, lane), 0)
			c.wv64(c.d.Dst, lane, s)
			out |= carry << uint(lane)
		})
		old := c.s64(c.d.SDst, false)
		exec := c.st.EXEC
		c.ws64(c.d.SDst, old&^exec|out&exec)
		if ^exec != 0 {
			if c.d.SDst.Kind == isaenc.KSGPR {
				c.st.Marks = append(c.st.Marks,
					Mark{Kind: CellSGPR, Index: int(c.d.SDst.N), Mask: uint64(uint32(^exec)), Why: "carry-out-inactive-lanes"},
					Mark{Kind: CellSGPR, Index: int(c.d.SDst.N) + 1, Mask: uint64(uint32(^exec >> 32)), Why: "carry-out-inactive-lanes"})
			} else {
				c.st.Marks = append(c.st.Marks, Mark{Kind: CellVCC, Mask: ^exec, Why: "carry-out-inactive-lanes"})
			}
		}
	})

	vop3(both, 640, "v_add_f64", TF64, TF64, TNone, TF64, func(c *ctx, lane int) {
		a, b := c.srcD(0, lane), c.srcD(1, lane)
		c.dstD(lane, addF64(a, b), fpIn64(a, b))
	})
	vop3(both, 641, "v_mul_f64", TF64, TF64, TNone, TF64, func(c *ctx, lane int) {
		a, b := c.srcD(0, lane), c.srcD(1, lane)
		c.dstD(lane, mulF64(a, b), fpIn64(a, b))
	})
	vop3(both, 642, "v_min_f64", TF64, TF64, TNone, TF64, func(c *ctx, lane int) {
		a, b := c.srcD(0, lane), c.srcD(1, lane)
		r, dc := minmaxF64(a, b, false)
		if d := fpIn64(a, b); d != "" {
			dc = d
		}
		c.dstD(lane, r, dc)
	})
	vop3(both, 643, "v_max_f64", TF64, TF64, TNone, TF64, func(c *ctx, lane int) {
		a, b := c.srcD(0, lane), c.srcD(1, lane)
		r, dc := minmaxF64(a, b, true)
		if d := fpIn64(a, b); d != "" {
			dc = d
		}
		c.dstD(lane, r, dc)
	})
	vop3(both, 645, "v_mul_lo_u32", TU32, TU32, TNone, TU32, binU(func(a, b uint32) uint32 { return a * b }))
	vop3(both, 646, "v_mul_hi_u32", TU32, TU32, TNone, TU32, binU(func(a, b uint32) uint32 { return uint32(uint64(a) * uint64(b) >> 32) }))
	vop3(both, 647, "v_mul_hi_i32", TI32, TI32, TNone, TI32, binU(func(a, b uint32) uint32 {
		return uint32(uint64(int64(int32(a))*int64(int32(b))) >> 32)
	}))
	vop3(both, 651, "v_bcnt_u32_b32", TB32, TU32, TNone, TU32, binU(func(a, b uint32) uint32 { return uint32(bits.OnesCount32(a)) + b }))
	vop3(both, 655, "v_lshlrev_b64", TSh, TB64, TNone, TB64, func(c *ctx, lane int) {
		c.noOutMods()
		c.wv64(c.d.Dst, lane, c.srcQ(1, lane)<<(c.srcU(0, lane)&63))
	})
	vop3(both, 656, "v_lshrrev_b64", TSh, TB64, TNone, TB64, func(c *ctx, lane int) {
		c.noOutMods()
		c.wv64(c.d.Dst, lane, c.srcQ(1, lane)>>(c.srcU(0, lane)&63))
	})
	vop3(both, 657, "v_ashrrev_i64", TSh, TB64, TNone, TB64, func(c *ctx, lane int) {
		c.noOutMods()
		c.wv64(c.d.Dst, lane, uint64(int64(c.srcQ(1, lane))>>(c.srcU(0, lane)&63)))
	})
	vop3(both, 659, "v_bfm_b32", TSh, TSh, TNone, TB32, binU(func(a, b uint32) uint32 { return (uint32(1)<<(a&31) - 1) << (b & 31) }))

	// gfx9 three-operand integer operations
	vop3(onlyCDNA3, 509, "v_lshl_add_u32", TU32, TSh, TU32, TU32, tri(func(a, b, x uint32) uint32 { return a<<(b&31) + x }))
	vop3(onlyCDNA3, 510, "v_add_lshl_u32", TU32, TU32, TSh, TU32, tri(func(a, b, x uint32) uint32 { return (a + b) << (x & 31) }))
	vop3(onlyCDNA3, 511, "v_add3_u32", TU32, TU32, TU32, TU32, tri(func(a, b, x uint32) uint32 { return a + b + x }))
	vop3(onlyCDNA3, 512, "v_lshl_or_b32", TU32, TSh, TB32, TB32, tri(func(a, b, x uint32) uint32 { return a<<(b&31) | x }))
	vop3(onlyCDNA3, 513, "v_and_or_b32", TB32, TB32, TB32, TB32, tri(func(a, b, x uint32) uint32 { return a&b | x }))
	vop3(onlyCDNA3, 514, "v_or3_b32", TB32, TB32, TB32, TB32, tri(func(a, b, x uint32) uint32 { return a | b | x }))
	vop3(onlyCDNA3, 520, "v_lshl_add_u64", TB64, TSh, TB64, TB64, func(c *ctx, lane int) {
		c.noOutMods()
		sh := c.srcU(1, lane)
		if sh > 4 {
			// DOUBT: how many bits of the shift amount are significant (the manual's S1[2:0] vs
			// the assembler's 0..4 restriction); only 0..4 is modelled
			unsupported("v_lshl_add_u64 with a shift amount above 4")
		}
		c.wv64(c.d.Dst, lane, c.srcQ(0, lane)<<sh+c.srcQ(2, lane))
	})

	// gfx90a+ packed FP32 (VOP3P opcodes 48..50 appear as 944..946 in the 10-bit VOP3 opcode field).
	// Fields (VOP3P layout): op_sel = bits 13:11, op_sel_hi[2] = bit 14, op_sel_hi[1:0] = the OMOD
	// field, neg_lo = the NEG field, neg_hi = the ABS field.
	pk := func(op int, name string, nsrc int, f func(c *ctx, s [3]uint32) uint32) {
		ts := [3]OpType{TPkF32, TPkF32}
		if nsrc == 3 {
			ts[2] = TPkF32
		}
		reg(onlyCDNA3, isaenc.VOP3a, op, Info{Name: name, Src: ts, Dst: TPkF32}, func(c *ctx) {
			d := c.d
			if d.Clamp {
				unsupported("clamp on packed FP32")
			}
			opSel := d.OpSel & 7
			opSelHi := d.Omod | d.OpSel>>3&1<<2
			negLo, negHi := d.Neg, d.Abs
			c.forActive(func(lane int) {
				var lo, hi [3]uint32
				for i := 0; i < nsrc; i++ {
					o := c.src(i)
					if o.Kind != isaenc.KVGPR && o.Kind != isaenc.KSGPR {
						// DOUBT: how constants are replicated for packed-FP32 sources
						unsupported("packed FP32 source of kind %q", o.Kind)
					}
					v := c.v64(o, lane, false)
					w := [2]uint32{uint32(v), uint32(v >> 32)}
					lo[i] = w[opSel>>uint(i)&1]
					hi[i] = w[opSelHi>>uint(i)&1]
					if negLo>>uint(i)&1 != 0 {
						lo[i] ^= 0x80000000
					}
					if negHi>>uint(i)&1 != 0 {
						hi[i] ^= 0x80000000
					}
				}
				rl, rh := f(c, lo), f(c, hi)
				reg := int(d.Dst.N)
				if d.Dst.Kind != isaenc.KVGPR || reg+1 > 255 {
					unsupported("packed destination")
				}
				c.pkOut(lane, reg, rl, fpIn32(lo[:nsrc]...))
				c.pkOut(lane, reg+1, rh, fpIn32(hi[:nsrc]...))
			})
		})
	}
	pk(944, "v_pk_fma_f32", 3, func(c *ctx, s [3]uint32) uint32 { return c.fma32(s[0], s[1], s[2]) })
	pk(945, "v_pk_mul_f32", 2, func(_ *ctx, s [3]uint32) uint32 { return mulF32(s[0], s[1]) })
	pk(946, "v_pk_add_f32", 2, func(_ *ctx, s [3]uint32) uint32 { return addF32(s[0], s[1]) })
}

// pkOut writes one FP32 half of a packed result.
func (c *ctx) pkOut(lane, reg int, r uint32, dc string) {
	st := c.st
	switch {
	case dc != "":
	case isNaN32(r):
		st.VGPR[lane][reg] = 0x7fc00000
		st.Marks = append(st.Marks, Mark{Kind: CellVGPR, Index: reg, Lane: lane, NaN: 32, Why: "nan-result"})
		st.Note("nan-result")
		return
	case isDenorm32(r) || r&0x7fffffff == 0x00800000:
		dc = "denorm-out"
	}
	st.VGPR[lane][reg] = r
	if dc != "" {
		st.Marks = append(st.Marks, Mark{Kind: CellVGPR, Index: reg, Lane: lane, Mask: 0xffffffff, Why: dc})
		st.Note(dc)
	}
}
