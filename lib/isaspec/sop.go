package isaspec

import (
	"math/bits"

	"verif/lib/isaenc"
)

// Scalar ALU: SOP2, SOP1, SOPC, SOPK, SOPP. Opcode numbers are those of the
// GCN3 manual (chapter 12 "Instruction Set", SOP2/SOP1/... opcode tables); the
// CDNA3 manual keeps the same numbers for every opcode registered for both.

func (c *ctx) setSCC(b bool) { c.st.SCC = uint8(bool32(b)) }

// sop2u32 registers D = f(S0.u32, S1.u32 [,SCC]) with an optional SCC result.
func sop2u32(as archSet, op int, name string, t0, t1 OpType, readsSCC bool, fn func(a, b uint32, scc uint8) (d uint32, newSCC int)) {
	reg(as, isaenc.SOP2, op, Info{Name: name, Src: [3]OpType{t0, t1}, Dst: TB32, ReadsSCC: readsSCC, WritesSCC: true}, func(c *ctx) {
		a, b := c.s32(c.d.Src0), c.s32(c.d.Src1)
		d, scc := fn(a, b, c.st.SCC)
		c.ws32(c.d.Dst, d)
		if scc >= 0 {
			c.st.SCC = uint8(scc)
		}
	})
}

func sop2u64(as archSet, op int, name string, t0, t1 OpType, s1is32 bool, fn func(a, b uint64) (d uint64, newSCC int)) {
	reg(as, isaenc.SOP2, op, Info{Name: name, Src: [3]OpType{t0, t1}, Dst: TB64, WritesSCC: true}, func(c *ctx) {
		a := c.s64(c.d.Src0, false)
		var b uint64
		if s1is32 {
			b = uint64(c.s32(c.d.Src1))
		} else {
			b = c.s64(c.d.Src1, false)
		}
		d, scc := fn(a, b)
		c.ws64(c.d.Dst, d)
		if scc >= 0 {
			c.st.SCC = uint8(scc)
		}
	})
}

func nz32(d uint32) int { return int(bool32(d != 0)) }
func nz64(d uint64) int {
	if d != 0 {
		return 1
	}
	return 0
}

// bfeU32 / bfeI32: the manuals' "(S0 >> offset) & ((1 << width) - 1)" evaluated
// in unbounded precision, the signed form sign-extended from the top bit of
// the extracted field.
func bfeU32(s0 uint32, off, width uint) uint32 {
	if width == 0 {
		return 0
	}
	v := uint64(s0) >> off
	if width < 32 {
		v &= 1<<width - 1
	}
	return uint32(v)
}

func bfeI32(s0 uint32, off, width uint) uint32 {
	if width == 0 {
		return 0
	}
	v := int64(int32(s0)) >> off // arithmetic shift of the signed source
	if width >= 32 {
		return uint32(v)
	}
	f := uint32(v) & (1<<width - 1)
	if f>>(width-1)&1 != 0 {
		f |= ^uint32(0) << width
	}
	return f
}

func bfeU64(s0 uint64, off, width uint) uint64 {
	if width == 0 {
		return 0
	}
	v := s0 >> off
	if width < 64 {
		v &= 1<<width - 1
	}
	return v
}

func bfeI64(s0 uint64, off, width uint) uint64 {
	if width == 0 {
		return 0
	}
	v := uint64(int64(s0) >> off)
	if width >= 64 {
		return v
	}
	f := v & (1<<width - 1)
	if f>>(width-1)&1 != 0 {
		f |= ^uint64(0) << width
	}
	return f
}

func init() {
	// ----- SOP2 -----------------------------------------------------------
	sop2u32(both, 0, "s_add_u32", TU32, TU32, false, func(a, b uint32, _ uint8) (uint32, int) {
		s := uint64(a) + uint64(b)
		return uint32(s), int(s >> 32)
	})
	sop2u32(both, 1, "s_sub_u32", TU32, TU32, false, func(a, b uint32, _ uint8) (uint32, int) {
		return a - b, int(bool32(b > a))
	})
	sop2u32(both, 2, "s_add_i32", TI32, TI32, false, func(a, b uint32, _ uint8) (uint32, int) {
		d := a + b
		// signed overflow: operands have the same sign and the result's differs
		return d, int(bool32(a>>31 == b>>31 && a>>31 != d>>31))
	})
	sop2u32(both, 3, "s_sub_i32", TI32, TI32, false, func(a, b uint32, _ uint8) (uint32, int) {
		d := a - b
		return d, int(bool32(a>>31 != b>>31 && a>>31 != d>>31))
	})
	sop2u32(both, 4, "s_addc_u32", TU32, TU32, true, func(a, b uint32, scc uint8) (uint32, int) {
		s := uint64(a) + uint64(b) + uint64(scc&1)
		return uint32(s), int(s >> 32)
	})
	sop2u32(both, 5, "s_subb_u32", TU32, TU32, true, func(a, b uint32, scc uint8) (uint32, int) {
		return a - b - uint32(scc&1), int(bool32(uint64(b)+uint64(scc&1) > uint64(a)))
	})
	sop2u32(both, 6, "s_min_i32", TI32, TI32, false, func(a, b uint32, _ uint8) (uint32, int) {
		if int32(a) < int32(b) {
			return a, 1
		}
		return b, 0
	})
	sop2u32(both, 7, "s_min_u32", TU32, TU32, false, func(a, b uint32, _ uint8) (uint32, int) {
		if a < b {
			return a, 1
		}
		return b, 0
	})
	sop2u32(both, 8, "s_max_i32", TI32, TI32, false, func(a, b uint32, _ uint8) (uint32, int) {
		if int32(a) > int32(b) {
			return a, 1
		}
		return b, 0
	})
	sop2u32(both, 9, "s_max_u32", TU32, TU32, false, func(a, b uint32, _ uint8) (uint32, int) {
		if a > b {
			return a, 1
		}
		return b, 0
	})
	reg(both, isaenc.SOP2, 10, Info{Name: "s_cselect_b32", Src: [3]OpType{TB32, TB32}, Dst: TB32, ReadsSCC: true}, func(c *ctx) {
		a, b := c.s32(c.d.Src0), c.s32(c.d.Src1)
		if c.st.SCC != 0 {
			c.ws32(c.d.Dst, a)
		} else {
			c.ws32(c.d.Dst, b)
		}
	})
	reg(both, isaenc.SOP2, 11, Info{Name: "s_cselect_b64", Src: [3]OpType{TB64, TB64}, Dst: TB64, ReadsSCC: true}, func(c *ctx) {
		a, b := c.s64(c.d.Src0, false), c.s64(c.d.Src1, false)
		if c.st.SCC != 0 {
			c.ws64(c.d.Dst, a)
		} else {
			c.ws64(c.d.Dst, b)
		}
	})
	type logic struct {
		op   int
		name string
		f    func(a, b uint64) uint64
	}
	for _, l := range []logic{
		{12, "s_and", func(a, b uint64) uint64 { return a & b }},
		{14, "s_or", func(a, b uint64) uint64 { return a | b }},
		{16, "s_xor", func(a, b uint64) uint64 { return a ^ b }},
		{18, "s_andn2", func(a, b uint64) uint64 { return a &^ b }},
		{20, "s_orn2", func(a, b uint64) uint64 { return a | ^b }},
		{22, "s_nand", func(a, b uint64) uint64 { return ^(a & b) }},
		{24, "s_nor", func(a, b uint64) uint64 { return ^(a | b) }},
		{26, "s_xnor", func(a, b uint64) uint64 { return ^(a ^ b) }},
	} {
		f := l.f
		sop2u32(both, l.op, l.name+"_b32", TB32, TB32, false, func(a, b uint32, _ uint8) (uint32, int) {
			d := uint32(f(uint64(a), uint64(b)))
			return d, nz32(d)
		})
		sop2u64(both, l.op+1, l.name+"_b64", TMask, TMask, false, func(a, b uint64) (uint64, int) {
			d := f(a, b)
			return d, nz64(d)
		})
	}
	sop2u32(both, 28, "s_lshl_b32", TB32, TSh, false, func(a, b uint32, _ uint8) (uint32, int) {
		d := a << (b & 31)
		return d, nz32(d)
	})
	sop2u64(both, 29, "s_lshl_b64", TB64, TSh, true, func(a, b uint64) (uint64, int) {
		d := a << (b & 63)
		return d, nz64(d)
	})
	sop2u32(both, 30, "s_lshr_b32", TB32, TSh, false, func(a, b uint32, _ uint8) (uint32, int) {
		d := a >> (b & 31)
		return d, nz32(d)
	})
	sop2u64(both, 31, "s_lshr_b64", TB64, TSh, true, func(a, b uint64) (uint64, int) {
		d := a >> (b & 63)
		return d, nz64(d)
	})
	sop2u32(both, 32, "s_ashr_i32", TI32, TSh, false, func(a, b uint32, _ uint8) (uint32, int) {
		d := uint32(int32(a) >> (b & 31))
		return d, nz32(d)
	})
	sop2u64(both, 33, "s_ashr_i64", TB64, TSh, true, func(a, b uint64) (uint64, int) {
		d := uint64(int64(a) >> (b & 63))
		return d, nz64(d)
	})
	sop2u32(both, 34, "s_bfm_b32", TSh, TSh, false, func(a, b uint32, _ uint8) (uint32, int) {
		return (uint32(1)<<(a&31) - 1) << (b & 31), -1
	})
	reg(both, isaenc.SOP2, 35, Info{Name: "s_bfm_b64", Src: [3]OpType{TSh, TSh}, Dst: TB64}, func(c *ctx) {
		a, b := c.s32(c.d.Src0), c.s32(c.d.Src1)
		c.ws64(c.d.Dst, (uint64(1)<<(a&63)-1)<<(b&63))
	})
	sop2u32(both, 36, "s_mul_i32", TI32, TI32, false, func(a, b uint32, _ uint8) (uint32, int) {
		return a * b, -1
	})
	sop2u32(both, 37, "s_bfe_u32", TB32, TBF, false, func(a, b uint32, _ uint8) (uint32, int) {
		d := bfeU32(a, uint(b&31), uint(b>>16&0x7f))
		return d, nz32(d)
	})
	sop2u32(both, 38, "s_bfe_i32", TI32, TBF, false, func(a, b uint32, _ uint8) (uint32, int) {
		d := bfeI32(a, uint(b&31), uint(b>>16&0x7f))
		return d, nz32(d)
	})
	sop2u64(both, 39, "s_bfe_u64", TB64, TBF, true, func(a, b uint64) (uint64, int) {
		d := bfeU64(a, uint(b&63), uint(b>>16&0x7f))
		return d, nz64(d)
	})
	sop2u64(both, 40, "s_bfe_i64", TB64, TBF, true, func(a, b uint64) (uint64, int) {
		d := bfeI64(a, uint(b&63), uint(b>>16&0x7f))
		return d, nz64(d)
	})
	sop2u32(both, 42, "s_absdiff_i32", TI32, TI32, false, func(a, b uint32, _ uint8) (uint32, int) {
		// "D.i = S0.i - S1.i; if (D.i < 0) D.i = -D.i" on the wrapped 32-bit difference
		// (manual example: absdiff(0x80000000, 1) = 0x7fffffff)
		d := a - b
		if int32(d) < 0 {
			d = -d
		}
		return d, nz32(d)
	})
	// CDNA3 (gfx9) additions
	sop2u32(onlyCDNA3, 44, "s_mul_hi_u32", TU32, TU32, false, func(a, b uint32, _ uint8) (uint32, int) {
		return uint32(uint64(a) * uint64(b) >> 32), -1
	})
	sop2u32(onlyCDNA3, 45, "s_mul_hi_i32", TI32, TI32, false, func(a, b uint32, _ uint8) (uint32, int) {
		return uint32(uint64(int64(int32(a))*int64(int32(b))) >> 32), -1
	})

	// ----- SOP1 -----------------------------------------------------------
	reg(both, isaenc.SOP1, 0, Info{Name: "s_mov_b32", Src: [3]OpType{TB32}, Dst: TB32}, func(c *ctx) {
		c.ws32(c.d.Dst, c.s32(c.d.Src0))
	})
	reg(both, isaenc.SOP1, 1, Info{Name: "s_mov_b64", Src: [3]OpType{TB64}, Dst: TB64}, func(c *ctx) {
		c.ws64(c.d.Dst, c.s64(c.d.Src0, false))
	})
	reg(both, isaenc.SOP1, 2, Info{Name: "s_cmov_b32", Src: [3]OpType{TB32}, Dst: TB32, ReadsSCC: true}, func(c *ctx) {
		v := c.s32(c.d.Src0)
		if c.st.SCC != 0 {
			c.ws32(c.d.Dst, v)
		}
	})
	reg(both, isaenc.SOP1, 3, Info{Name: "s_cmov_b64", Src: [3]OpType{TB64}, Dst: TB64, ReadsSCC: true}, func(c *ctx) {
		v := c.s64(c.d.Src0, false)
		if c.st.SCC != 0 {
			c.ws64(c.d.Dst, v)
		}
	})
	reg(both, isaenc.SOP1, 4, Info{Name: "s_not_b32", Src: [3]OpType{TB32}, Dst: TB32, WritesSCC: true}, func(c *ctx) {
		d := ^c.s32(c.d.Src0)
		c.ws32(c.d.Dst, d)
		c.setSCC(d != 0)
	})
	reg(both, isaenc.SOP1, 5, Info{Name: "s_not_b64", Src: [3]OpType{TMask}, Dst: TB64, WritesSCC: true}, func(c *ctx) {
		d := ^c.s64(c.d.Src0, false)
		c.ws64(c.d.Dst, d)
		c.setSCC(d != 0)
	})
	reg(both, isaenc.SOP1, 8, Info{Name: "s_brev_b32", Src: [3]OpType{TB32}, Dst: TB32}, func(c *ctx) {
		c.ws32(c.d.Dst, bits.Reverse32(c.s32(c.d.Src0)))
	})
	reg(both, isaenc.SOP1, 9, Info{Name: "s_brev_b64", Src: [3]OpType{TB64}, Dst: TB64}, func(c *ctx) {
		c.ws64(c.d.Dst, bits.Reverse64(c.s64(c.d.Src0, false)))
	})
	reg(both, isaenc.SOP1, 10, Info{Name: "s_bcnt0_i32_b32", Src: [3]OpType{TB32}, Dst: TB32, WritesSCC: true}, func(c *ctx) {
		d := uint32(32 - bits.OnesCount32(c.s32(c.d.Src0)))
		c.ws32(c.d.Dst, d)
		c.setSCC(d != 0)
	})
	reg(both, isaenc.SOP1, 11, Info{Name: "s_bcnt0_i32_b64", Src: [3]OpType{TMask}, Dst: TB32, WritesSCC: true}, func(c *ctx) {
		d := uint32(64 - bits.OnesCount64(c.s64(c.d.Src0, false)))
		c.ws32(c.d.Dst, d)
		c.setSCC(d != 0)
	})
	reg(both, isaenc.SOP1, 12, Info{Name: "s_bcnt1_i32_b32", Src: [3]OpType{TB32}, Dst: TB32, WritesSCC: true}, func(c *ctx) {
		d := uint32(bits.OnesCount32(c.s32(c.d.Src0)))
		c.ws32(c.d.Dst, d)
		c.setSCC(d != 0)
	})
	reg(both, isaenc.SOP1, 13, Info{Name: "s_bcnt1_i32_b64", Src: [3]OpType{TMask}, Dst: TB32, WritesSCC: true}, func(c *ctx) {
		d := uint32(bits.OnesCount64(c.s64(c.d.Src0, false)))
		c.ws32(c.d.Dst, d)
		c.setSCC(d != 0)
	})
	reg(both, isaenc.SOP1, 22, Info{Name: "s_sext_i32_i8", Src: [3]OpType{TB32}, Dst: TB32}, func(c *ctx) {
		c.ws32(c.d.Dst, uint32(int32(int8(c.s32(c.d.Src0)))))
	})
	reg(both, isaenc.SOP1, 23, Info{Name: "s_sext_i32_i16", Src: [3]OpType{TB32}, Dst: TB32}, func(c *ctx) {
		c.ws32(c.d.Dst, uint32(int32(int16(c.s32(c.d.Src0)))))
	})
	reg(both, isaenc.SOP1, 28, Info{Name: "s_getpc_b64", Dst: TB64}, func(c *ctx) {
		// "D.u64 = PC + 4: the byte address of the next instruction" (s_getpc_b64 is 4 bytes long)
		c.ws64(c.d.Dst, c.st.PC+4)
	})
	type saveexec struct {
		op   int
		name string
		f    func(s0, exec uint64) uint64
	}
	for _, s := range []saveexec{
		{32, "s_and_saveexec_b64", func(a, e uint64) uint64 { return a & e }},
		{33, "s_or_saveexec_b64", func(a, e uint64) uint64 { return a | e }},
		{34, "s_xor_saveexec_b64", func(a, e uint64) uint64 { return a ^ e }},
		{35, "s_andn2_saveexec_b64", func(a, e uint64) uint64 { return a &^ e }},
		{36, "s_orn2_saveexec_b64", func(a, e uint64) uint64 { return a | ^e }},
		{37, "s_nand_saveexec_b64", func(a, e uint64) uint64 { return ^(a & e) }},
		{38, "s_nor_saveexec_b64", func(a, e uint64) uint64 { return ^(a | e) }},
		{39, "s_xnor_saveexec_b64", func(a, e uint64) uint64 { return ^(a ^ e) }},
	} {
		f := s.f
		reg(both, isaenc.SOP1, s.op, Info{Name: s.name, Src: [3]OpType{TMask}, Dst: TB64, WritesSCC: true}, func(c *ctx) {
			s0 := c.s64(c.d.Src0, false)
			old := c.st.EXEC
			c.ws64(c.d.Dst, old)
			c.st.EXEC = f(s0, old)
			c.setSCC(c.st.EXEC != 0)
		})
	}
	reg(both, isaenc.SOP1, 48, Info{Name: "s_abs_i32", Src: [3]OpType{TI32}, Dst: TB32, WritesSCC: true}, func(c *ctx) {
		v := c.s32(c.d.Src0)
		if int32(v) < 0 {
			v = -v
		}
		c.ws32(c.d.Dst, v)
		c.setSCC(v != 0)
	})

	// ----- SOPC -----------------------------------------------------------
	type cmp struct {
		op     int
		name   string
		signed bool
		f      func(a, b int64) bool
	}
	eq := func(a, b int64) bool { return a == b }
	ne := func(a, b int64) bool { return a != b }
	gt := func(a, b int64) bool { return a > b }
	ge := func(a, b int64) bool { return a >= b }
	lt := func(a, b int64) bool { return a < b }
	le := func(a, b int64) bool { return a <= b }
	for _, k := range []cmp{
		{0, "s_cmp_eq_i32", true, eq}, {1, "s_cmp_lg_i32", true, ne}, {2, "s_cmp_gt_i32", true, gt},
		{3, "s_cmp_ge_i32", true, ge}, {4, "s_cmp_lt_i32", true, lt}, {5, "s_cmp_le_i32", true, le},
		{6, "s_cmp_eq_u32", false, eq}, {7, "s_cmp_lg_u32", false, ne}, {8, "s_cmp_gt_u32", false, gt},
		{9, "s_cmp_ge_u32", false, ge}, {10, "s_cmp_lt_u32", false, lt}, {11, "s_cmp_le_u32", false, le},
	} {
		k := k
		t := TU32
		if k.signed {
			t = TI32
		}
		reg(both, isaenc.SOPC, k.op, Info{Name: k.name, Src: [3]OpType{t, t}, WritesSCC: true}, func(c *ctx) {
			a, b := c.s32(c.d.Src0), c.s32(c.d.Src1)
			if k.signed {
				c.setSCC(k.f(int64(int32(a)), int64(int32(b))))
			} else {
				c.setSCC(k.f(int64(a), int64(b)))
			}
		})
	}
	reg(both, isaenc.SOPC, 12, Info{Name: "s_bitcmp0_b32", Src: [3]OpType{TB32, TSh}, WritesSCC: true}, func(c *ctx) {
		c.setSCC(c.s32(c.d.Src0)>>(c.s32(c.d.Src1)&31)&1 == 0)
	})
	reg(both, isaenc.SOPC, 13, Info{Name: "s_bitcmp1_b32", Src: [3]OpType{TB32, TSh}, WritesSCC: true}, func(c *ctx) {
		c.setSCC(c.s32(c.d.Src0)>>(c.s32(c.d.Src1)&31)&1 == 1)
	})
	reg(both, isaenc.SOPC, 18, Info{Name: "s_cmp_eq_u64", Src: [3]OpType{TB64, TB64}, WritesSCC: true}, func(c *ctx) {
		c.setSCC(c.s64(c.d.Src0, false) == c.s64(c.d.Src1, false))
	})
	reg(both, isaenc.SOPC, 19, Info{Name: "s_cmp_lg_u64", Src: [3]OpType{TB64, TB64}, WritesSCC: true}, func(c *ctx) {
		c.setSCC(c.s64(c.d.Src0, false) != c.s64(c.d.Src1, false))
	})

	// ----- SOPK -----------------------------------------------------------
	sext16 := func(c *ctx) uint32 { return uint32(int32(int16(c.d.SImm16))) }
	reg(both, isaenc.SOPK, 0, Info{Name: "s_movk_i32", Dst: TB32}, func(c *ctx) {
		c.ws32(c.d.Dst, sext16(c))
	})
	reg(both, isaenc.SOPK, 1, Info{Name: "s_cmovk_i32", Dst: TB32, ReadsSCC: true}, func(c *ctx) {
		if c.st.SCC != 0 {
			c.ws32(c.d.Dst, sext16(c))
		}
	})
	for _, k := range []cmp{
		{2, "s_cmpk_eq_i32", true, eq}, {3, "s_cmpk_lg_i32", true, ne}, {4, "s_cmpk_gt_i32", true, gt},
		{5, "s_cmpk_ge_i32", true, ge}, {6, "s_cmpk_lt_i32", true, lt}, {7, "s_cmpk_le_i32", true, le},
		{8, "s_cmpk_eq_u32", false, eq}, {9, "s_cmpk_lg_u32", false, ne}, {10, "s_cmpk_gt_u32", false, gt},
		{11, "s_cmpk_ge_u32", false, ge}, {12, "s_cmpk_lt_u32", false, lt}, {13, "s_cmpk_le_u32", false, le},
	} {
		k := k
		t := TU32
		if k.signed {
			t = TI32
		}
		reg(both, isaenc.SOPK, k.op, Info{Name: k.name, Dst: t, ReadsDst: true, WritesSCC: true}, func(c *ctx) {
			dv := c.s32(c.d.Dst)
			if k.signed {
				c.setSCC(k.f(int64(int32(dv)), int64(int16(c.d.SImm16))))
			} else {
				c.setSCC(k.f(int64(dv), int64(c.d.SImm16)))
			}
		})
	}
	reg(both, isaenc.SOPK, 14, Info{Name: "s_addk_i32", Dst: TI32, ReadsDst: true, WritesSCC: true}, func(c *ctx) {
		a, b := c.s32(c.d.Dst), sext16(c)
		d := a + b
		c.ws32(c.d.Dst, d)
		c.setSCC(a>>31 == b>>31 && a>>31 != d>>31)
	})
	reg(both, isaenc.SOPK, 15, Info{Name: "s_mulk_i32", Dst: TI32, ReadsDst: true}, func(c *ctx) {
		c.ws32(c.d.Dst, c.s32(c.d.Dst)*sext16(c))
	})

	// ----- SOPP -----------------------------------------------------------
	reg(both, isaenc.SOPP, 0, Info{Name: "s_nop"}, func(c *ctx) {})
	reg(both, isaenc.SOPP, 12, Info{Name: "s_waitcnt"}, func(c *ctx) {})
	branch := func(op int, name string, info Info, cond func(c *ctx) bool) {
		info.Name = name
		info.Branch = true
		reg(both, isaenc.SOPP, op, info, func(c *ctx) {
			if cond(c) {
				// PC(next) = PC(branch) + 4 + signext(SIMM16)*4; the "+ 4" is added by the compute unit
				c.st.PC += uint64(int64(int16(c.d.SImm16)) * 4)
			}
		})
	}
	branch(2, "s_branch", Info{}, func(c *ctx) bool { return true })
	branch(4, "s_cbranch_scc0", Info{ReadsSCC: true}, func(c *ctx) bool { return c.st.SCC == 0 })
	branch(5, "s_cbranch_scc1", Info{ReadsSCC: true}, func(c *ctx) bool { return c.st.SCC != 0 })
	branch(6, "s_cbranch_vccz", Info{ReadsVCC: true}, func(c *ctx) bool { return c.st.VCC == 0 })
	branch(7, "s_cbranch_vccnz", Info{ReadsVCC: true}, func(c *ctx) bool { return c.st.VCC != 0 })
	branch(8, "s_cbranch_execz", Info{}, func(c *ctx) bool { return c.st.EXEC == 0 })
	branch(9, "s_cbranch_execnz", Info{}, func(c *ctx) bool { return c.st.EXEC != 0 })
}
