// Package cmdhist generates and executes command histories over several contexts and queues
// (copies and kernels on private buffers) and evaluates them against a per-queue sequential model.
// It is shared by the C12 check (model oracle) and the C02 check (emulation vs timing).
package cmdhist

import (
	"fmt"

	"github.com/sarchlab/mgpusim/v4/amd/driver"
	"github.com/sarchlab/mgpusim/v4/amd/insts"
	"pgregory.net/rapid"

	"verif/lib/kasm"
	"verif/lib/plat"
)

// Cmd is one command of a queue.
type Cmd struct {
	// Kind: "h2d" (fill buffer Dst with pattern Seed), "kernel" (Dst[i] = Src[i]*Mul + Add), "d2h" (read buffer Src),
	// "h2dp" (fill a sub-range of buffer Dst), "kernelp" (Dst[i] = Src[i]*Par[0] + Par[1]), "run" (the engine runs until all queues are empty before
	// anything else is enqueued)
	Kind string `json:"kind"`
	Src  int    `json:"src,omitempty"`
	Dst  int    `json:"dst,omitempty"`
	Mul  uint32 `json:"mul,omitempty"`
	Add  uint32 `json:"add,omitempty"`
	Seed uint32 `json:"seed,omitempty"`
	// Off, Len (kind "h2dp"): the dwords [Off, Off+Len) of buffer Dst are overwritten with pattern Seed
	Off int `json:"off,omitempty"`
	Len int `json:"len,omitempty"`
	// Par (kind "kernelp"): the buffer whose first two dwords the kernel reads
	// with a scalar load and uses as multiplier and addend
	Par int `json:"par,omitempty"`
}

// Queue is one command queue with its private buffers.
type Queue struct {
	Ctx int `json:"ctx"`
	GPU int `json:"gpu"` // device the queue runs on; NumGPUs+1 = a unified device over all GPUs
	// BufGPU: GPU whose memory holds this queue's buffers (0 = the queue's own device)
	BufGPU int   `json:"buf_gpu,omitempty"`
	Cmds   []Cmd `json:"cmds"`
}

// Case is one generated history.
type Case struct {
	Spec   plat.Spec `json:"spec"`
	NCtx   int       `json:"n_ctx"`
	N      int       `json:"n"` // dwords per buffer
	NBuf   int       `json:"n_buf"`
	Queues []Queue   `json:"queues"`
	// Rounds: the enqueue order interleaves the queues round-robin, Chunk commands at a time;
	// RunEvery > 0 runs the engine after every RunEvery enqueue rounds
	Chunk    int `json:"chunk"`
	RunEvery int `json:"run_every"`
	// ShareCO: queues (also of different contexts) launch the same code object value when
	// their kernels have the same constants
	ShareCO bool `json:"share_co"`
}

// Gen draws a history.
func Gen(t *rapid.T) Case { return GenWith(t, GenOpts{}) }

// GenOpts biases Gen.
type GenOpts struct {
	// TwoGPUs: always a two-GPU platform
	TwoGPUs bool
	// TimingBias: two cases in three run on the timing platform (default: one in four)
	TimingBias bool
	// MotifBias: every second queue starts with the kernel - re-upload - kernel motif (default: one in four)
	MotifBias bool
}

// GenWith draws a history.
func GenWith(t *rapid.T, o GenOpts) Case {
	var c Case
	c.Spec.Timing = rapid.IntRange(0, 3).Draw(t, "timing") == 0
	if o.TimingBias {
		c.Spec.Timing = rapid.IntRange(0, 2).Draw(t, "timing2") > 0
	}
	c.Spec.NumGPUs = rapid.SampledFrom([]int{1, 1, 2}).Draw(t, "gpus")
	if o.TwoGPUs {
		c.Spec.NumGPUs = 2
	}
	if c.Spec.Timing {
		// (the direct-storage "magic" copy path of timing mode is property C11's subject)
		c.Spec.GPUType = "r9nano"
	}
	c.NCtx = rapid.IntRange(1, 3).Draw(t, "nctx")
	c.N = rapid.SampledFrom([]int{1, 17, 64, 100, 300, 1024, 1500, 4096, 4096, 8192}).Draw(t, "n")
	c.NBuf = rapid.IntRange(2, 3).Draw(t, "nbuf")
	nq := rapid.IntRange(1, 4).Draw(t, "nq")
	scalarMotif := false
	for q := 0; q < nq; q++ {
		var qu Queue
		qu.Ctx = rapid.IntRange(0, c.NCtx-1).Draw(t, "ctx")
		qu.GPU = rapid.IntRange(1, c.Spec.NumGPUs).Draw(t, "gpu")
		if c.Spec.NumGPUs > 1 {
			switch rapid.IntRange(0, 3).Draw(t, "placement") {
			case 0:
				qu.GPU = c.Spec.NumGPUs + 1 // unified device
			case 1, 2:
				qu.BufGPU = rapid.IntRange(1, c.Spec.NumGPUs).Draw(t, "bufgpu") // possibly remote memory
			}
		}
		motif := rapid.IntRange(0, 3).Draw(t, "motif")
		if motif == 0 || (o.MotifBias && motif == 1) {
			// re-upload motif: a kernel reads a buffer, the host overwrites it, the kernel runs again
			a := rapid.IntRange(0, c.NBuf-1).Draw(t, "ma")
			b := (a + 1) % c.NBuf
			mul := rapid.SampledFrom([]uint32{1, 3}).Draw(t, "mmul")
			qu.Cmds = append(qu.Cmds,
				Cmd{Kind: "kernel", Src: a, Dst: b, Mul: mul, Add: 7, Seed: 1},
				Cmd{Kind: "h2d", Dst: a, Seed: rapid.Uint32Range(1, 1<<20).Draw(t, "mseed")},
				Cmd{Kind: "kernel", Src: a, Dst: b, Mul: mul, Add: 7, Seed: 1},
				Cmd{Kind: "d2h", Src: b})
		}
		if motif == 2 && c.N >= 2 {
			// scalar reload motif: a kernel reads its parameters from a device buffer with a
			// scalar load, another kernel overwrites that buffer, the first kernel runs again.
			// Both code objects have been used before and the engine runs after every launch (so
			// that the next launch's argument buffers are allocated after it): with shared code
			// objects no host copy that the driver precedes with a cache flush separates the launches
			p := rapid.IntRange(0, c.NBuf-1).Draw(t, "mp")
			a, b := p, (p+1)%c.NBuf
			if c.NBuf >= 3 {
				a, b = (p+1)%c.NBuf, (p+2)%c.NBuf
			}
			mul := rapid.SampledFrom([]uint32{3, 5}).Draw(t, "mmul2")
			qu.Cmds = append(qu.Cmds,
				Cmd{Kind: "kernel", Src: b, Dst: p, Mul: mul, Add: 11, Seed: 1},
				Cmd{Kind: "run"},
				Cmd{Kind: "kernelp", Src: a, Dst: b, Par: p},
				Cmd{Kind: "run"},
				Cmd{Kind: "kernel", Src: b, Dst: p, Mul: mul, Add: 11, Seed: 1},
				Cmd{Kind: "run"},
				Cmd{Kind: "kernelp", Src: a, Dst: b, Par: p})
			scalarMotif = true
			if rapid.Bool().Draw(t, "mread") {
				qu.Cmds = append(qu.Cmds, Cmd{Kind: "d2h", Src: b})
			}
		}
		n := rapid.IntRange(1, 8).Draw(t, "ncmds")
		for i := 0; i < n; i++ {
			var cmd Cmd
			kinds := []string{"h2d", "kernel", "kernel", "kernelp", "d2h", "h2dp"}
			if o.TwoGPUs {
				// where the pages of a buffer may lie on different GPUs, copies into parts of it matter most
				kinds = append(kinds, "h2dp", "d2h")
			}
			cmd.Kind = rapid.SampledFrom(kinds).Draw(t, "kind")
			cmd.Src = rapid.IntRange(0, c.NBuf-1).Draw(t, "src")
			cmd.Dst = rapid.IntRange(0, c.NBuf-1).Draw(t, "dst")
			if cmd.Kind == "h2dp" {
				// a copy of less than a page; with buffers of several pages mostly one that starts
				// shortly before a page boundary (1024 dwords) and ends behind it
				const pageDwords = 1024
				if c.N > pageDwords && rapid.IntRange(0, 3).Draw(t, "partstraddle") > 0 {
					b := pageDwords * rapid.IntRange(1, (c.N-1)/pageDwords).Draw(t, "partpage")
					cmd.Off = b - rapid.IntRange(1, 300).Draw(t, "partbefore")
					max := c.N - cmd.Off
					if max > pageDwords-1 {
						max = pageDwords - 1
					}
					cmd.Len = rapid.IntRange(b-cmd.Off+1, max).Draw(t, "partlen")
				} else {
					cmd.Off = rapid.IntRange(0, c.N-1).Draw(t, "partoff")
					cmd.Len = rapid.IntRange(1, c.N-cmd.Off).Draw(t, "partlen")
				}
			}
			if cmd.Kind == "kernelp" && c.N < 2 {
				cmd.Kind = "kernel"
			}
			if (cmd.Kind == "kernel" || cmd.Kind == "kernelp") && cmd.Dst == cmd.Src {
				cmd.Dst = (cmd.Src + 1) % c.NBuf
			}
			if cmd.Kind == "kernelp" {
				// the parameter buffer is any buffer the kernel does not write
				cmd.Par = rapid.IntRange(0, c.NBuf-1).Draw(t, "par")
				if cmd.Par == cmd.Dst {
					cmd.Par = cmd.Src
				}
			}
			cmd.Mul = rapid.SampledFrom([]uint32{1, 2, 3, 5, 0x10001}).Draw(t, "mul")
			cmd.Add = rapid.Uint32Range(0, 1000).Draw(t, "add")
			cmd.Seed = rapid.Uint32Range(1, 1<<20).Draw(t, "seed")
			qu.Cmds = append(qu.Cmds, cmd)
		}
		c.Queues = append(c.Queues, qu)
	}
	c.Chunk = rapid.IntRange(1, 3).Draw(t, "chunk")
	c.RunEvery = rapid.SampledFrom([]int{0, 0, 1, 2}).Draw(t, "runevery")
	c.ShareCO = rapid.Bool().Draw(t, "shareco") || scalarMotif
	return c
}

// LimitN lowers the buffer size to at most n dwords and keeps the sub-range copies inside it.
func (c *Case) LimitN(n int) {
	if c.N <= n {
		return
	}
	c.N = n
	for q := range c.Queues {
		for i := range c.Queues[q].Cmds {
			cmd := &c.Queues[q].Cmds[i]
			if cmd.Kind != "h2dp" {
				continue
			}
			cmd.Off %= n
			if cmd.Off+cmd.Len > n {
				cmd.Len = n - cmd.Off
			}
		}
	}
}

// Pattern is the deterministic fill pattern of a seed.
func Pattern(seed uint32, n int) []uint32 {
	out := make([]uint32, n)
	x := seed*2654435761 + 1
	for i := range out {
		x ^= x << 13
		x ^= x >> 17
		x ^= x << 5
		out[i] = x
	}
	return out
}

// scaleKernel builds a code object computing out[gid] = in[gid]*mul + add.
// ScaleKernel builds the code object of out[gid] = in[gid]*mul + add.
func ScaleKernel(mul, add uint32) *insts.KernelCodeObject {
	a := kasm.New()
	// s[0:1] kernarg {In, Out}; s2 = work-group id x; v0 = local id x
	a.SMEM(kasm.OpSLoadDwordx4, kasm.S(4), kasm.S(0), 0)
	a.SOP2(kasm.OpSLshlB32, kasm.S(8), kasm.S(2), kasm.Imm(6))
	a.VOP2(kasm.OpVAddU32, kasm.V(1), kasm.S(8), kasm.V(0)) // gid
	a.VOP2(kasm.OpVLshlrevB32, kasm.V(2), kasm.Imm(2), kasm.V(1))
	a.Waitcnt(15, 7, 0)
	a.VOP2(kasm.OpVAddU32, kasm.V(4), kasm.S(4), kasm.V(2))
	a.VOP1(kasm.OpVMovB32, kasm.V(5), kasm.S(5))
	a.VOP2(kasm.OpVAddcU32, kasm.V(5), kasm.Imm(0), kasm.V(5))
	a.FLAT(kasm.OpFlatLoadDword, kasm.V(3), kasm.V(4), kasm.None)
	a.VOP2(kasm.OpVAddU32, kasm.V(6), kasm.S(6), kasm.V(2))
	a.VOP1(kasm.OpVMovB32, kasm.V(7), kasm.S(7))
	a.VOP2(kasm.OpVAddcU32, kasm.V(7), kasm.Imm(0), kasm.V(7))
	a.SOP1(kasm.OpSMovB32, kasm.S(9), kasm.Lit(mul))
	a.Waitcnt(0, 7, 15)
	a.VOP3a(kasm.OpVMulLoU32, kasm.V(3), kasm.V(3), kasm.S(9), kasm.Operand{})
	a.VOP2(kasm.OpVAddU32, kasm.V(3), kasm.Lit(add), kasm.V(3))
	a.FLAT(kasm.OpFlatStoreDword, kasm.None, kasm.V(6), kasm.V(3))
	a.SOPP(kasm.OpSEndpgm, 0)
	code, err := a.Bytes()
	if err != nil {
		panic(err)
	}
	return &insts.KernelCodeObject{
		KernelCodeObjectMeta: &insts.KernelCodeObjectMeta{
			KernargSegmentByteSize: 16, EnableSgprKernargSegmentPtr: true,
			WFSgprCount: 16, WIVgprCount: 8, ComputePgmRsrc2: 2<<1 | 1<<7,
		},
		Data: code, Version: insts.CodeObjectV3,
	}
}

// ParamKernel builds the code object of out[gid] = in[gid]*par[0] + par[1],
// par[0] and par[1] being read from device memory with one scalar load.
func ParamKernel() *insts.KernelCodeObject {
	a := kasm.New()
	// s[0:1] kernarg {In, Out, Par}; s2 = work-group id x; v0 = local id x
	a.SMEM(kasm.OpSLoadDwordx4, kasm.S(4), kasm.S(0), 0)
	a.SMEM(kasm.OpSLoadDwordx2, kasm.S(10), kasm.S(0), 16)
	a.SOP2(kasm.OpSLshlB32, kasm.S(8), kasm.S(2), kasm.Imm(6))
	a.VOP2(kasm.OpVAddU32, kasm.V(1), kasm.S(8), kasm.V(0)) // gid
	a.VOP2(kasm.OpVLshlrevB32, kasm.V(2), kasm.Imm(2), kasm.V(1))
	a.Waitcnt(15, 7, 0)
	a.SMEM(kasm.OpSLoadDwordx2, kasm.S(12), kasm.S(10), 0)
	a.VOP2(kasm.OpVAddU32, kasm.V(4), kasm.S(4), kasm.V(2))
	a.VOP1(kasm.OpVMovB32, kasm.V(5), kasm.S(5))
	a.VOP2(kasm.OpVAddcU32, kasm.V(5), kasm.Imm(0), kasm.V(5))
	a.FLAT(kasm.OpFlatLoadDword, kasm.V(3), kasm.V(4), kasm.None)
	a.VOP2(kasm.OpVAddU32, kasm.V(6), kasm.S(6), kasm.V(2))
	a.VOP1(kasm.OpVMovB32, kasm.V(7), kasm.S(7))
	a.VOP2(kasm.OpVAddcU32, kasm.V(7), kasm.Imm(0), kasm.V(7))
	a.Waitcnt(0, 7, 0)
	a.VOP3a(kasm.OpVMulLoU32, kasm.V(3), kasm.V(3), kasm.S(12), kasm.Operand{})
	a.VOP2(kasm.OpVAddU32, kasm.V(3), kasm.S(13), kasm.V(3))
	a.FLAT(kasm.OpFlatStoreDword, kasm.None, kasm.V(6), kasm.V(3))
	a.SOPP(kasm.OpSEndpgm, 0)
	code, err := a.Bytes()
	if err != nil {
		panic(err)
	}
	return &insts.KernelCodeObject{
		KernelCodeObjectMeta: &insts.KernelCodeObjectMeta{
			KernargSegmentByteSize: 24, EnableSgprKernargSegmentPtr: true,
			WFSgprCount: 16, WIVgprCount: 8, ComputePgmRsrc2: 2<<1 | 1<<7,
		},
		Data: code, Version: insts.CodeObjectV3,
	}
}

// ParamArgs is the kernel argument block of ParamKernel.
type ParamArgs struct{ In, Out, Par driver.Ptr }

// ScaleArgs is the kernel argument block of ScaleKernel.
type ScaleArgs struct{ In, Out driver.Ptr }

// RunFifoCase executes one history.
// Result is what one execution of a history produced.
type Result struct {
	Labels     []string
	NonTrivial bool
	// Violation: a read-back or final buffer differs from the per-queue sequential model, or the run failed
	Violation string
	// Err is set when the run itself failed (panic, hang)
	Err error
	// Reads[q] lists the read-backs of queue q in order; Finals[q][b] is the final content of its buffer b
	Reads  [][][]uint32
	Finals [][][]uint32
}

// Run executes one history on a fresh platform.
func Run(c Case) (res Result) {
	mode := "emu"
	if c.Spec.Timing {
		mode = "timing"
	}
	res.Labels = append(res.Labels, "mode:"+mode, fmt.Sprintf("contexts:%d", c.NCtx), fmt.Sprintf("queues:%d", len(c.Queues)))
	pl, err := plat.New(c.Spec)
	if err != nil {
		panic(fmt.Sprintf("harness: %v", err))
	}
	defer pl.Close()
	d := pl.Driver
	ctxs := make([]*driver.Context, c.NCtx)
	for i := range ctxs {
		ctxs[i] = d.Init()
	}
	type qstate struct {
		q     *driver.CommandQueue
		bufs  []driver.Ptr
		model [][]uint32
		next  int
		reads []struct {
			got  []uint32
			want []uint32
			cmd  int
		}
	}
	qs := make([]*qstate, len(c.Queues))
	ctxQueues := map[int]int{}
	unified := 0
	for i, qu := range c.Queues {
		ctx := ctxs[qu.Ctx]
		dev := qu.GPU
		if dev > c.Spec.NumGPUs {
			if unified == 0 {
				all := []int{}
				for g := 1; g <= c.Spec.NumGPUs; g++ {
					all = append(all, g)
				}
				unified = d.CreateUnifiedGPU(ctx, all)
			}
			dev = unified
			res.Labels = append(res.Labels, "queue-on-unified-device")
		}
		d.SelectGPU(ctx, dev)
		st := &qstate{q: d.CreateCommandQueue(ctx)}
		if qu.BufGPU != 0 && qu.BufGPU != qu.GPU && qu.GPU <= c.Spec.NumGPUs {
			d.SelectGPU(ctx, qu.BufGPU)
			res.Labels = append(res.Labels, "buffers-in-another-gpus-memory")
		}
		for b := 0; b < c.NBuf; b++ {
			st.bufs = append(st.bufs, d.AllocateMemory(ctx, uint64(c.N*4)))
			init := Pattern(uint32(1000*i+b), c.N)
			st.model = append(st.model, init)
			d.EnqueueMemCopyH2D(st.q, st.bufs[b], append([]uint32(nil), init...))
		}
		qs[i] = st
		ctxQueues[qu.Ctx]++
	}
	kernels, scalarKernels, partial := 0, 0, 0
	coCache := map[[2]uint32]*insts.KernelCodeObject{}
	kernelFor := func(mul, add uint32) *insts.KernelCodeObject {
		if !c.ShareCO {
			return ScaleKernel(mul, add)
		}
		if co, ok := coCache[[2]uint32{mul, add}]; ok {
			res.Labels = append(res.Labels, "code-object-reused")
			return co
		}
		co := ScaleKernel(mul, add)
		coCache[[2]uint32{mul, add}] = co
		return co
	}
	var paramCO *insts.KernelCodeObject
	paramKernel := func() *insts.KernelCodeObject {
		if !c.ShareCO {
			return ParamKernel()
		}
		if paramCO == nil {
			paramCO = ParamKernel()
		} else {
			res.Labels = append(res.Labels, "code-object-reused")
		}
		return paramCO
	}
	allQueues := func() []*driver.CommandQueue {
		var out []*driver.CommandQueue
		for _, st := range qs {
			out = append(out, st.q)
		}
		return out
	}
	fail := func(format string, a ...any) Result {
		res.Violation = fmt.Sprintf(format, a...)
		return res
	}
	round := 0
	for {
		progressed := false
		for i, qu := range c.Queues {
			st := qs[i]
			for k := 0; k < c.Chunk && st.next < len(qu.Cmds); k++ {
				cmd := qu.Cmds[st.next]
				progressed = true
				switch cmd.Kind {
				case "h2d":
					data := Pattern(cmd.Seed, c.N)
					st.model[cmd.Dst] = data
					d.EnqueueMemCopyH2D(st.q, st.bufs[cmd.Dst], append([]uint32(nil), data...))
				case "kernel":
					out := make([]uint32, c.N)
					for j, v := range st.model[cmd.Src] {
						out[j] = v*cmd.Mul + cmd.Add
					}
					st.model[cmd.Dst] = out
					kernels++
					d.EnqueueLaunchKernel(st.q, kernelFor(cmd.Mul, cmd.Add), [3]uint32{uint32(c.N), 1, 1}, [3]uint16{64, 1, 1},
						&ScaleArgs{In: st.bufs[cmd.Src], Out: st.bufs[cmd.Dst]})
				case "h2dp":
					if cmd.Off < 0 || cmd.Len < 1 || cmd.Off+cmd.Len > c.N {
						panic(fmt.Sprintf("harness: sub-range copy [%d,+%d) outside a buffer of %d dwords", cmd.Off, cmd.Len, c.N))
					}
					data := Pattern(cmd.Seed, cmd.Len)
					m := append([]uint32(nil), st.model[cmd.Dst]...)
					copy(m[cmd.Off:], data)
					st.model[cmd.Dst] = m
					partial++
					d.EnqueueMemCopyH2D(st.q, st.bufs[cmd.Dst]+driver.Ptr(4*cmd.Off), append([]uint32(nil), data...))
				case "run":
					// the engine runs until every queue is empty before the next command is enqueued
					if err := pl.Run(allQueues()...); err != nil {
						res.Err = err
						return fail("run at command %d of queue %d fails: %v", st.next, i, err)
					}
				case "kernelp":
					mul, add := st.model[cmd.Par][0], st.model[cmd.Par][1]
					out := make([]uint32, c.N)
					for j, v := range st.model[cmd.Src] {
						out[j] = v*mul + add
					}
					st.model[cmd.Dst] = out
					kernels++
					scalarKernels++
					d.EnqueueLaunchKernel(st.q, paramKernel(), [3]uint32{uint32(c.N), 1, 1}, [3]uint16{64, 1, 1},
						&ParamArgs{In: st.bufs[cmd.Src], Out: st.bufs[cmd.Dst], Par: st.bufs[cmd.Par]})
				case "d2h":
					got := make([]uint32, c.N)
					d.EnqueueMemCopyD2H(st.q, got, st.bufs[cmd.Src])
					st.reads = append(st.reads, struct {
						got  []uint32
						want []uint32
						cmd  int
					}{got, append([]uint32(nil), st.model[cmd.Src]...), st.next})
				}
				st.next++
			}
		}
		round++
		if !progressed {
			break
		}
		if c.RunEvery > 0 && round%c.RunEvery == 0 {
			if err := pl.Run(allQueues()...); err != nil {
				res.Err = err
				return fail("run after enqueue round %d fails: %v", round, err)
			}
		}
	}
	// final read-back of every buffer
	finals := make([][][]uint32, len(qs))
	for i, st := range qs {
		for b := range st.bufs {
			got := make([]uint32, c.N)
			d.EnqueueMemCopyD2H(st.q, got, st.bufs[b])
			finals[i] = append(finals[i], got)
		}
	}
	if err := pl.Run(allQueues()...); err != nil {
		res.Err = err
		return fail("final run fails: %v", err)
	}
	multiCtxSameGPU := false
	seen := map[[2]int]bool{}
	for _, qu := range c.Queues {
		for _, o := range c.Queues {
			if o.Ctx != qu.Ctx && o.GPU == qu.GPU {
				multiCtxSameGPU = true
			}
		}
		seen[[2]int{qu.Ctx, qu.GPU}] = true
	}
	if multiCtxSameGPU {
		res.Labels = append(res.Labels, "several-contexts-on-one-gpu")
	}
	if kernels >= 2 {
		res.Labels = append(res.Labels, "several-kernels")
	}
	if partial >= 1 {
		res.Labels = append(res.Labels, "copy-into-a-part-of-a-buffer")
	}
	if scalarKernels >= 1 {
		res.Labels = append(res.Labels, "kernel-reading-device-data-with-scalar-loads")
	}
	res.NonTrivial = len(c.Queues) >= 2 && kernels >= 1
	for i, st := range qs {
		var rd [][]uint32
		for _, r := range st.reads {
			rd = append(rd, r.got)
		}
		res.Reads = append(res.Reads, rd)
		res.Finals = append(res.Finals, finals[i])
	}
	for i, st := range qs {
		for _, r := range st.reads {
			for j := range r.want {
				if r.got[j] != r.want[j] {
					return fail("queue %d (context %d, GPU %d): read-back issued as command %d returned 0x%08x at dword %d, the commands before it in the queue give 0x%08x",
						i, c.Queues[i].Ctx, c.Queues[i].GPU, r.cmd, r.got[j], j, r.want[j])
				}
			}
		}
		for b := range st.bufs {
			for j := range st.model[b] {
				if finals[i][b][j] != st.model[b][j] {
					return fail("queue %d (context %d, GPU %d): final content of its buffer %d dword %d is 0x%08x, its own commands in order give 0x%08x",
						i, c.Queues[i].Ctx, c.Queues[i].GPU, b, j, finals[i][b][j], st.model[b][j])
				}
			}
		}
	}
	return res
}
