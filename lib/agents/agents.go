// Package agents is a small kit for component-level harnesses: scripted akita
// components that tick on a harness-owned serial engine, direct connections and
// port monitors. A run is over when engine.Run() returns (engine quiescence), so
// "eventually answered" never depends on wall-clock time.
package agents

import (
	"fmt"

	"github.com/sarchlab/akita/v4/sim"
	"github.com/sarchlab/akita/v4/sim/directconnection"
)

// Agent is a ticking component whose behaviour is a closure.
type Agent struct {
	*sim.TickingComponent
	// TickFn is called once per cycle while the agent is awake; it returns
	// true when it made progress (or wants to be ticked again next cycle).
	TickFn func(cycle uint64) bool
	freq   sim.Freq
}

// Tick implements sim.Ticker.
func (a *Agent) Tick() bool {
	if a.TickFn == nil {
		return false
	}
	return a.TickFn(a.Cycle())
}

// Cycle returns the current cycle number of the agent's clock.
func (a *Agent) Cycle() uint64 {
	return a.freq.Cycle(a.Engine.CurrentTime())
}

// NewAgent creates an agent ticking at freq.
func NewAgent(engine sim.Engine, name string, freq sim.Freq) *Agent {
	a := &Agent{freq: freq}
	a.TickingComponent = sim.NewTickingComponent(name, engine, freq, a)
	return a
}

// NewPort adds a port with the given incoming/outgoing buffer sizes.
func (a *Agent) NewPort(name string, inBuf, outBuf int) sim.Port {
	p := sim.NewPort(a, inBuf, outBuf, a.Name()+"."+name)
	a.AddPort(name, p)
	return p
}

// Connect plugs all ports into one new direct connection.
func Connect(engine sim.Engine, name string, freq sim.Freq, ports ...sim.Port) *directconnection.Comp {
	c := directconnection.MakeBuilder().WithEngine(engine).WithFreq(freq).Build(name)
	for _, p := range ports {
		c.PlugIn(p)
	}
	return c
}

// PortEvent is one logged port event.
type PortEvent struct {
	Time sim.VTimeInSec
	Pos  string // "send", "recv", "retrieve"
	Port string
	Msg  sim.Msg
	Seq  int
}

// PortLog collects events of the ports it is attached to, in global order.
type PortLog struct {
	Engine sim.Engine
	Events []PortEvent
}

// Func implements sim.Hook.
func (l *PortLog) Func(ctx sim.HookCtx) {
	var pos string
	switch ctx.Pos {
	case sim.HookPosPortMsgSend:
		pos = "send"
	case sim.HookPosPortMsgRecvd:
		pos = "recv"
	case sim.HookPosPortMsgRetrieveIncoming:
		pos = "retrieve"
	default:
		return
	}
	msg, ok := ctx.Item.(sim.Msg)
	if !ok {
		return
	}
	name := ""
	if p, ok := ctx.Domain.(sim.Port); ok {
		name = p.Name()
	}
	var now sim.VTimeInSec
	if l.Engine != nil {
		now = l.Engine.CurrentTime()
	}
	l.Events = append(l.Events, PortEvent{Time: now, Pos: pos, Port: name, Msg: msg, Seq: len(l.Events)})
}

// Attach registers the log on the ports.
func (l *PortLog) Attach(ports ...sim.Port) {
	for _, p := range ports {
		p.AcceptHook(l)
	}
}

// RunEngine runs the engine to quiescence and converts a panic of the code
// under test into an error.
func RunEngine(engine sim.Engine) (err error) {
	defer func() {
		if r := recover(); r != nil {
			err = fmt.Errorf("panic: %v", r)
		}
	}()
	return engine.Run()
}

// Safely runs f and converts a panic into an error.
func Safely(f func()) (err error) {
	defer func() {
		if r := recover(); r != nil {
			err = fmt.Errorf("panic: %v", r)
		}
	}()
	f()
	return nil
}
