// Package benchcase defines the JSON case exchanged between the C01 property
// package (props/c01) and its one-case-per-process worker (cmd/benchrun).
package benchcase

// Case fully determines one run of one shipped workload.
type Case struct {
	// Workload is the name of the sample under /repo/amd/samples.
	Workload string `json:"workload"`
	// P holds the workload's size/shape parameters under the names of the
	// sample's command-line flags (all integers; ratios are in permille).
	P map[string]int `json:"p"`
	// Arch is "gcn3" or "cdna3" (runner flag -arch).
	Arch string `json:"arch"`
	// GPUs is the GPU id list (runner flag -gpus, or -unified-gpus when Unified).
	GPUs []int `json:"gpus"`
	// Unified selects -unified-gpus instead of -gpus.
	Unified bool `json:"unified_gpus"`
	// UnifiedMemory sets -use-unified-memory.
	UnifiedMemory bool `json:"unified_memory"`
	// Timing sets -timing.
	Timing bool `json:"timing"`
	// GPUType is the timing GPU model (runner flag -gpu); "" = flag not passed.
	GPUType string `json:"gpu_type,omitempty"`
	// Seed seeds math/rand's global source before the benchmark is built
	// (the samples leave it unseeded; several workloads draw their input from it).
	Seed int64 `json:"seed"`
	// Anchor names the acceptance-matrix entry this case transcribes ("" for generated cases).
	Anchor string `json:"anchor,omitempty"`
	// Second, when set, is a second workload that runs concurrently in the same process with its
	// own driver context, the way amd/samples/concurrentworkload does (same architecture and mode;
	// both workloads then use exactly the GPUs listed for them).
	Second *Second `json:"second,omitempty"`
}

// Second is the second workload of a concurrent pair.
type Second struct {
	Workload string         `json:"workload"`
	P        map[string]int `json:"p"`
	GPUs     []int          `json:"gpus"`
}

// PassMarker is the last line a successful worker prints on stdout.
const PassMarker = "BENCHRUN-PASS"

// WaveID identifies a wavefront independently of the execution mode.
type WaveID struct {
	Packet  uint64 `json:"packet"` // device address of the dispatch packet
	WG      [3]int `json:"wg"`
	FirstWI int    `json:"first_wi"`
}

// Less orders wavefront ids.
func (a WaveID) Less(b WaveID) bool {
	if a.Packet != b.Packet {
		return a.Packet < b.Packet
	}
	for d := 2; d >= 0; d-- {
		if a.WG[d] != b.WG[d] {
			return a.WG[d] < b.WG[d]
		}
	}
	return a.FirstWI < b.FirstWI
}

// WaveDigest summarises the instructions one wavefront id executed (all dispatches that
// reused the packet address, in execution order).
type WaveDigest struct {
	ID   WaveID `json:"id"`
	N    int    `json:"n"`
	Hash string `json:"hash"`
}

// D2HDigest lists, for one device address, the data delivered to device-to-host copy requests.
type D2HDigest struct {
	Addr uint64   `json:"addr"`
	Data []string `json:"data"` // "<bytes>:<hash>" in delivery order
}

// MaxWavesListed bounds the per-wavefront list of a digest (beyond it only WavesHash is kept).
const MaxWavesListed = 50000

// Digest is what a worker in digest mode (BENCHRUN_DIGEST) observed.
type Digest struct {
	Insts       int          `json:"insts"`
	NumWaves    int          `json:"num_waves"`
	WavesHash   string       `json:"waves_hash"`
	Waves       []WaveDigest `json:"waves,omitempty"`
	Kernels     int          `json:"kernels"` // kernel launch commands started
	D2HRequests int          `json:"d2h_requests"`
	D2H         []D2HDigest  `json:"d2h"`
}
