// Package benchcase defines the JSON case exchanged between the C01 property
// package (props/c01) and its one-case-per-process worker (cmd/benchrun).
package benchcase

// Case fully determines one run of one shipped workload.
type Case struct {
	// Workload is the name of the sample under /repo/amd/samples.
	Workload string `json:"workload"`
	// P holds the workload's size/shape parameters under the names of the
	// sample's command-line flags (all integers; ratios are in permille).
	P map[string]int `json:"p"`
	// Arch is "gcn3" or "cdna3" (runner flag -arch).
	Arch string `json:"arch"`
	// GPUs is the GPU id list (runner flag -gpus, or -unified-gpus when Unified).
	GPUs []int `json:"gpus"`
	// Unified selects -unified-gpus instead of -gpus.
	Unified bool `json:"unified_gpus"`
	// UnifiedMemory sets -use-unified-memory.
	UnifiedMemory bool `json:"unified_memory"`
	// Timing sets -timing.
	Timing bool `json:"timing"`
	// GPUType is the timing GPU model (runner flag -gpu); "" = flag not passed.
	GPUType string `json:"gpu_type,omitempty"`
	// Seed seeds math/rand's global source before the benchmark is built
	// (the samples leave it unseeded; several workloads draw their input from it).
	Seed int64 `json:"seed"`
	// Anchor names the acceptance-matrix entry this case transcribes ("" for generated cases).
	Anchor string `json:"anchor,omitempty"`
}

// PassMarker is the last line a successful worker prints on stdout.
const PassMarker = "BENCHRUN-PASS"
