package benchgen

import (
	"context"
	"encoding/json"
	"errors"
	"fmt"
	"os"
	"os/exec"
	"path/filepath"
	"sync"
	"syscall"
	"time"

	"verif/lib/stats"
)

// Per-case wall-clock deadlines. Reaching one is INCONCLUSIVE for that case
// (label "timeout", counted, never a violation): the cost caps of the
// generators keep a case at <= ~3 s (emulation) / <= ~20 s (timing) on an idle
// core, so these are 40x / 30x margins for a loaded machine.
const (
	emuDeadline    = 120 * time.Second
	timingDeadline = 600 * time.Second
)

var (
	workerOnce sync.Once
	workerPath string
	workerErr  error
)

// worker returns the path of the benchrun binary. ./check builds it
// (check.json "extra_builds") against the same repository as this test
// binary and exports VERIF_BIN_BENCHRUN; when the test binary is run by hand
// the worker is built once from /verif against /repo.
func worker() (string, error) {
	workerOnce.Do(func() {
		if p := os.Getenv("VERIF_BIN_BENCHRUN"); p != "" {
			workerPath = p
			return
		}
		dir, err := os.MkdirTemp("", "c01-worker-")
		if err != nil {
			workerErr = err
			return
		}
		workerPath = filepath.Join(dir, "benchrun")
		cmd := exec.Command("go", "build", "-tags", "verif", "-o", workerPath, "./cmd/benchrun")
		cmd.Dir = stats.VerifDir()
		cmd.Env = append(os.Environ(), "GOFLAGS=-mod=mod", "GOPROXY=off")
		if out, err := cmd.CombinedOutput(); err != nil {
			workerErr = fmt.Errorf("building cmd/benchrun: %v\n%s", err, out)
		}
	})
	return workerPath, workerErr
}

// tailBuf keeps the last max bytes written to it.
type tailBuf struct {
	mu  sync.Mutex
	buf []byte
	max int
}

func (t *tailBuf) Write(p []byte) (int, error) {
	t.mu.Lock()
	defer t.mu.Unlock()
	t.buf = append(t.buf, p...)
	if len(t.buf) > 2*t.max {
		t.buf = append([]byte(nil), t.buf[len(t.buf)-t.max:]...)
	}
	return len(p), nil
}

func (t *tailBuf) String() string {
	t.mu.Lock()
	defer t.mu.Unlock()
	b := t.buf
	if len(b) > t.max {
		b = b[len(b)-t.max:]
	}
	return string(b)
}

// Outcome is what one worker run produced.
type Outcome struct {
	TimedOut bool
	Exit     int    // exit status (-1 = killed by a signal)
	Signal   string // signal name when killed by one
	Stdout   string // tail
	Stderr   string // tail
	Wall     time.Duration
	Harness  string // non-empty = the harness itself failed (not a result)
}

// RunWorker executes one case in a fresh process whose working directory is
// a fresh directory under $TMPDIR (the simulation writes its sqlite/metrics
// files into the cwd); the directory is removed afterwards.
func RunWorker(c Case, extraEnv []string) Outcome {
	bin, err := worker()
	if err != nil {
		return Outcome{Harness: err.Error()}
	}
	dir, err := os.MkdirTemp("", "c01-case-")
	if err != nil {
		return Outcome{Harness: err.Error()}
	}
	defer os.RemoveAll(dir)
	raw, _ := json.Marshal(c)
	casePath := filepath.Join(dir, "case.json")
	if err := os.WriteFile(casePath, raw, 0o644); err != nil {
		return Outcome{Harness: err.Error()}
	}
	deadline := emuDeadline
	if c.Timing {
		deadline = timingDeadline
	}
	if s := os.Getenv("VERIF_C01_DEADLINE_S"); s != "" {
		var n int
		if _, err := fmt.Sscanf(s, "%d", &n); err == nil && n > 0 {
			deadline = time.Duration(n) * time.Second
		}
	}
	ctx, cancel := context.WithTimeout(context.Background(), deadline)
	defer cancel()
	cmd := exec.CommandContext(ctx, bin, casePath)
	cmd.Dir = dir
	cmd.Env = append(append(os.Environ(), "TMPDIR="+dir), extraEnv...)
	so := &tailBuf{max: 4096}
	se := &tailBuf{max: 8192}
	cmd.Stdout = so
	cmd.Stderr = se
	cmd.WaitDelay = 5 * time.Second
	t0 := time.Now()
	err = cmd.Run()
	o := Outcome{Stdout: so.String(), Stderr: se.String(), Wall: time.Since(t0)}
	if ctx.Err() == context.DeadlineExceeded {
		o.TimedOut = true
		return o
	}
	if err != nil {
		var ee *exec.ExitError
		if !errors.As(err, &ee) {
			o.Harness = "cannot run the worker: " + err.Error()
			return o
		}
		o.Exit = ee.ExitCode()
		if ws, ok := ee.Sys().(syscall.WaitStatus); ok && ws.Signaled() {
			o.Signal = ws.Signal().String()
		}
	}
	return o
}
