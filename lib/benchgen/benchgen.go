// Package benchgen holds the workload registry and the case generator of the shipped
// workloads under /repo/amd/benchmarks. It is shared by the C01 check (the workload's own
// Verify() as oracle) and the "shipped" stage of the C02 check (emulation vs timing on the
// shipped kernels).
package benchgen

// Workload registry: for every shipped workload the admissibility constraints
// of its size/shape parameters, transcribed from the workload's own code (the
// citation is next to each constraint; paths are relative to
// /repo/amd/benchmarks unless they start with samples/ or tests/), the cost
// caps of the generators (a cost cap, not a code limit) and the configuration
// classes for which the acceptance matrix claims timing mode.
//
// Vocabulary: nq = number of GPU ids the workload sees. With -unified-gpus
// the runner replaces the id list by the single id of the unified device
// (samples/runner/runner.go createUnifiedGPUs), so nq = 1 there; with -gpus
// nq = len(gpus).

import (
	"fmt"
	"sort"

	"pgregory.net/rapid"

	"verif/lib/benchcase"
	"verif/lib/stats"
)

// Case is one case (see lib/benchcase).
type Case = benchcase.Case

// GenCase draws one case of the C01 domain.
func GenCase(t *rapid.T) Case { return genCase(t) }

// Admissible returns "" when the case lies in the documented domain of C01.
func Admissible(c Case) string { return admissible(c) }

// AdmissibleAnyTiming is Admissible without the restriction of timing mode to the
// configuration classes of the acceptance matrix (and without a prescribed GPU type).
func AdmissibleAnyTiming(c Case) string {
	if !c.Timing {
		return admissible(c)
	}
	e := c
	e.Timing, e.GPUType = false, ""
	return admissible(e)
}

// Known reports whether a workload of that name is registered.
func Known(name string) bool { _, ok := registry[name]; return ok }

// Classify returns the labels of a case and whether it is non-trivial by C01's rule.
func Classify(c Case) ([]string, bool) { return classify(registry[c.Workload], c) }

// Anchors returns the transcribed acceptance configurations.
func Anchors() []Case { return anchors() }

// NumQueues returns the number of GPU ids the workload sees.
func NumQueues(c Case) int { return numQueues(c) }

// SortedKeys returns the parameter names in order.
func SortedKeys(p map[string]int) []string { return sortedKeys(p) }

// WorkloadNames returns the registered workload names in order.
func WorkloadNames() []string { return append([]string(nil), workloadNames...) }

// HasArch reports whether the workload ships a code object for the architecture.
func HasArch(name, arch string) bool {
	w := registry[name]
	if w == nil {
		return false
	}
	if arch == "cdna3" {
		return w.cdna3
	}
	return w.gcn3
}

// PlainMultiGPU returns "" when the workload supports -gpus=1,2,...; else the reason why not.
func PlainMultiGPU(name string) string { return registry[name].plainMultiGPU }

// GenParams draws admissible parameters of a workload for nq GPU ids under the cost cap of the mode.
func GenParams(t *rapid.T, name string, nq int, timing bool) map[string]int {
	return registry[name].gen(t, nq, timing)
}

type params = map[string]int

type workload struct {
	name string
	// accept: the acceptance script's fixed size (tests/acceptance/cases.go
	// sizeArgs; flags it does not pass keep the sample main's defaults). For
	// workloads the script does not list, the sample main's defaults.
	accept params
	// timing: configuration classes the acceptance matrix lists with
	// timing: true for this workload (nil = none).
	timing func(c Case) bool
	// cdna3: the workload ships a gfx942 code object AND the acceptance matrix
	// lists it with arch cdna3.
	cdna3 bool
	// gcn3: false only for vectoradd (ships nothing but a gfx942 object).
	gcn3 bool
	// plainMultiGPU: "" when -gpus=1,2[,3,4] is admissible, else the reason
	// (from the workload's code) why it is not.
	plainMultiGPU string
	// gen draws admissible parameters for nq GPUs under the cost cap of the mode.
	gen func(t *rapid.T, nq int, timing bool) params
	// check returns "" when p is admissible for nq GPUs, else the violated
	// precondition. It is the executable form of the constraints below and is
	// applied to every case before it runs (generated, replayed, regress).
	check func(p params, nq int) string
	// partial reports whether a launch dimension of the case is not a multiple
	// of the work-group size (the workload then launches partial work-groups or
	// over-provisions the grid and guards with a bounds check in the kernel).
	partial func(p params, nq int) bool
}

func isPow2(n int) bool { return n > 0 && n&(n-1) == 0 }

func bad(format string, a ...any) string { return fmt.Sprintf(format, a...) }

// drawSize draws lo..hi with a bias towards the neighbourhood of multiples of
// unit (the work-group size) and towards the bounds.
func drawSize(t *rapid.T, name string, lo, hi, unit int) int {
	if hi < lo {
		hi = lo
	}
	switch rapid.IntRange(0, 5).Draw(t, name+"-kind") {
	case 0, 1: // a multiple of the work-group size, +-1
		maxK := hi / unit
		if maxK >= 1 {
			v := rapid.IntRange(1, maxK).Draw(t, name+"-k")*unit + rapid.SampledFrom([]int{0, 0, -1, 1}).Draw(t, name+"-d")
			if v >= lo && v <= hi {
				return v
			}
		}
	case 2: // small
		if lo+unit < hi {
			return rapid.IntRange(lo, lo+unit).Draw(t, name)
		}
	}
	return rapid.IntRange(lo, hi).Draw(t, name)
}

// drawMult draws unit*k with unit*k in lo..hi (k >= 1).
func drawMult(t *rapid.T, name string, unit, hi int) int {
	maxK := hi / unit
	if maxK < 1 {
		maxK = 1
	}
	return unit * rapid.IntRange(1, maxK).Draw(t, name)
}

func pick(timing bool, emu, tim int) int {
	if timing {
		return tim
	}
	return emu
}

// Timing classes of tests/acceptance/cases.go (gcn3 = no arch given there).
//
// fullMatrix: the 20-class block used by atax, bicg, fir, aes, kmeans,
// pagerank, matrixmultiplication, matrixtranspose, simpleconvolution,
// floydwarshall, relu, stencil2d, fft(gcn3), nbody: gpus {1} plain, {1,2} and
// {1,2,3,4} plain and unified, each with unified memory off/on, timing
// false/true, arch "" (gcn3), gpuType "" (r9nano).
func fullMatrix(c Case) bool { return c.Arch == "gcn3" }

// bfs (cases.go, "../../benchmarks/shoc/bfs" gcn3 block): {1} plain, {1,2} and
// {1,2,3,4} only as unified device; unified memory off/on.
func bfsMatrix(c Case) bool {
	return c.Arch == "gcn3" && (len(c.GPUs) == 1 || c.Unified)
}

// spmv (cases.go, first "../../benchmarks/shoc/spmv" block): all GPU sets
// plain and unified, unified memory never.
func spmvMatrix(c Case) bool { return c.Arch == "gcn3" && !c.UnifiedMemory }

// vectoradd (cases.go, "CDNA3/MI300A (gfx942) architecture tests"): timing
// only with arch cdna3 + gpuType mi300a: {1} plain, {1,2} and {1,2,3,4}
// unified, unified memory off.
func vectoraddMatrix(c Case) bool {
	return c.Arch == "cdna3" && !c.UnifiedMemory && (len(c.GPUs) == 1 && !c.Unified || len(c.GPUs) > 1 && c.Unified)
}

var registry = map[string]*workload{}
var workloadNames []string

func register(w *workload) {
	registry[w.name] = w
	workloadNames = append(workloadNames, w.name)
	sort.Strings(workloadNames)
}

func init() {
	// ------------------------------------------------------------------ polybench/atax
	register(&workload{
		name: "atax", accept: params{"x": 256, "y": 256}, timing: fullMatrix, gcn3: true,
		gen: func(t *rapid.T, nq int, timing bool) params {
			n := drawSize(t, "n", 1, pick(timing, 600, 96), 256)
			return params{"x": n, "y": n}
		},
		check: func(p params, nq int) string {
			// polybench/atax/benchmark.go:146 the host vector x has NX elements but
			// :277 (cpuAtax) and the kernel (native/atax.cl atax_kernel1) index it with
			// j < NY, and :161/:170 allocate NY*4 device bytes for it while exec copies
			// NX*4 bytes into them: NY > NX makes Verify index out of range, NX > NY
			// overruns the device buffer. Only NX == NY is consistent.
			if p["x"] != p["y"] || p["x"] < 1 {
				return bad("atax needs x == y >= 1")
			}
			return ""
		},
		// :238 the grid is rounded up to a multiple of 256 and the kernels guard
		// with `if (i < nx)` / `if (j < ny)` (native/atax.cl).
		partial: func(p params, nq int) bool { return p["x"]%256 != 0 },
	})
	// ------------------------------------------------------------------ polybench/bicg
	register(&workload{
		name: "bicg", accept: params{"x": 256, "y": 256}, timing: fullMatrix, gcn3: true,
		gen: func(t *rapid.T, nq int, timing bool) params {
			m := pick(timing, 600, 96)
			return params{"x": drawSize(t, "x", 1, m, 256), "y": drawSize(t, "y", 1, m, 256)}
		},
		check: func(p params, nq int) string {
			// polybench/bicg/benchmark.go initMem: every buffer is sized by the
			// dimension it is indexed with; no relation between NX and NY.
			if p["x"] < 1 || p["y"] < 1 {
				return bad("bicg needs x, y >= 1")
			}
			return ""
		},
		// exec: grids rounded up to 256, kernels guard `if (i < nx)` / `if (j < ny)`
		// (native/bicg.cl).
		partial: func(p params, nq int) bool { return p["x"]%256 != 0 || p["y"]%256 != 0 },
	})
	// ------------------------------------------------------------------ heteromark/fir
	register(&workload{
		name: "fir", accept: params{"length": 8192, "taps": 16}, timing: fullMatrix, gcn3: true,
		gen: func(t *rapid.T, nq int, timing bool) params {
			taps := rapid.IntRange(1, pick(timing, 48, 16)).Draw(t, "taps")
			maxLen := pick(timing, 32768, 8192)
			// exactness cap, see check
			if lim := (1 << 24) / (taps*(taps-1)/2 + 1); lim < maxLen {
				maxLen = lim
			}
			per := drawSize(t, "per-gpu-length", 1, maxLen/nq, 256)
			return params{"length": per * nq, "taps": taps}
		},
		check: func(p params, nq int) string {
			l, taps := p["length"], p["taps"]
			// heteromark/fir/fir.go:126 NumTapsParam <= 0 silently becomes 16
			if taps < 1 {
				return bad("fir needs taps >= 1")
			}
			// :181 gridSize = Length / numGPUs and :224 offset gpuIndex*Length/numGPUs:
			// the tail is not computed unless Length is divisible by the GPU count.
			if l < nq || l%nq != 0 {
				return bad("fir needs length >= 1 divisible by the %d GPUs used", nq)
			}
			// :266 Verify demands |cpu-gpu| < 1e-5 ABSOLUTE on sums of i*j products
			// (inputs float32(i), coefficients float32(j)); that is an exact-equality
			// demand, meaningful only while every partial sum is an integer below 2^24
			// (exactly representable, so the order/fusing of the float operations
			// cannot matter). Largest sum: (length-1) * taps*(taps-1)/2.
			if (l-1)*(taps*(taps-1)/2) >= 1<<24 {
				return bad("fir sums leave the exactly representable float32 integers")
			}
			return ""
		},
		// :181/:222 grid = Length/numGPUs with work-group 256: the driver launches a
		// partial last work-group (the grid is exact, kernels.cl needs no guard).
		partial: func(p params, nq int) bool { return (p["length"]/nq)%256 != 0 },
	})
	// ------------------------------------------------------------------ heteromark/aes
	register(&workload{
		name: "aes", accept: params{"length": 16384}, timing: fullMatrix, gcn3: true,
		gen: func(t *rapid.T, nq int, timing bool) params {
			blocksPer := drawSize(t, "blocks-per-gpu", 1, pick(timing, 8192, 2048)/nq, 64)
			return params{"length": 16 * blocksPer * nq}
		},
		check: func(p params, nq int) string {
			l := p["length"]
			// heteromark/aes/aes.go:214 numWi = Length/16 and :295 cpuEncrypt encrypts
			// Length/16 whole blocks: a trailing partial block is neither encrypted on
			// the device nor by the reference (which leaves zeros there).
			// :221 globalSizeX = numWi/len(gpus), :254 offset i*numWi/len(gpus).
			if l < 16*nq || l%(16*nq) != 0 {
				return bad("aes needs length >= 16 divisible by 16*%d", nq)
			}
			return ""
		},
		// work-group 64 (:215), exact grid, partial last work-group.
		partial: func(p params, nq int) bool { return (p["length"]/16/nq)%64 != 0 },
	})
	// ------------------------------------------------------------------ heteromark/kmeans
	register(&workload{
		name: "kmeans", accept: params{"points": 1024, "features": 32, "clusters": 5, "max-iter": 5},
		timing: fullMatrix, gcn3: true,
		gen: func(t *rapid.T, nq int, timing bool) params {
			per := drawSize(t, "points-per-gpu", 1, pick(timing, 4096, 512)/nq, 64)
			points := per * nq
			maxC := pick(timing, 8, 4)
			if points < maxC {
				maxC = points
			}
			return params{
				"points":   points,
				"features": rapid.IntRange(1, pick(timing, 34, 8)).Draw(t, "features"),
				"clusters": rapid.IntRange(1, maxC).Draw(t, "clusters"),
				"max-iter": rapid.IntRange(1, pick(timing, 5, 2)).Draw(t, "max-iter"),
			}
		},
		check: func(p params, nq int) string {
			// heteromark/kmeans/kmeans.go:238/:344 numWI = NumPoints/len(gpus), offset numWI*i
			if p["points"] < nq || p["points"]%nq != 0 {
				return bad("kmeans needs points >= 1 divisible by the %d GPUs used", nq)
			}
			// :332 initializeClusters copies the first NumClusters points
			if p["clusters"] < 1 || p["clusters"] > p["points"] {
				return bad("kmeans needs 1 <= clusters <= points")
			}
			if p["features"] < 1 || p["max-iter"] < 1 {
				return bad("kmeans needs features, max-iter >= 1")
			}
			return ""
		},
		// work-group 64, exact grid, kernels also guard `point_id < npoints` (kernels.cl)
		partial: func(p params, nq int) bool { return (p["points"]/nq)%64 != 0 },
	})
	// ------------------------------------------------------------------ heteromark/pagerank
	register(&workload{
		name: "pagerank", accept: params{"node": 64, "sparsity-permille": 500, "iterations": 2},
		timing: fullMatrix, gcn3: true,
		gen: func(t *rapid.T, nq int, timing bool) params {
			return params{
				"node":              rapid.IntRange(1, pick(timing, 256, 64)).Draw(t, "node"),
				"sparsity-permille": rapid.SampledFrom([]int{1, 10, 50, 100, 250, 500, 800, 1000}).Draw(t, "sparsity"),
				"iterations":        rapid.IntRange(1, 4).Draw(t, "iterations"),
			}
		},
		check: func(p params, nq int) string {
			// samples/pagerank/main.go clamps sparsity to <= 1 and the connection
			// count to >= node; matrix/csr/matrixgenerator.go:131 draws unoccupied
			// positions by rejection, which needs connections <= node*node (holds).
			if p["node"] < 1 || p["iterations"] < 1 || p["sparsity-permille"] < 0 {
				return bad("pagerank needs node, iterations >= 1")
			}
			return ""
		},
		// heteromark/pagerank/pagerank.go:293 grid = NumNodes*64 with work-group 64: always whole groups
		partial: func(p params, nq int) bool { return false },
	})
	// ------------------------------------------------------------------ amdappsdk/matrixmultiplication
	register(&workload{
		name: "matrixmultiplication", accept: params{"x": 128, "y": 128, "z": 128}, timing: fullMatrix, gcn3: true,
		gen: func(t *rapid.T, nq int, timing bool) params {
			m := pick(timing, 256, 128)
			return params{
				"x": drawMult(t, "x/32", 32, m),
				"z": drawMult(t, "z/32", 32, m),
				"y": drawMult(t, "y/(4*nq)", 4*nq, m),
			}
		},
		check: func(p params, nq int) string {
			// amdappsdk/matrixmultiplication/MatrixMultiplication_Kernels.cl:49
			// numLoops = (widthA/4)/lSizeX with lSizeX = 8 (mm.go:118): the inner
			// dimension X is only covered when it is a multiple of 32.
			if p["x"] < 32 || p["x"]%32 != 0 {
				return bad("matrixmultiplication needs x a multiple of 32")
			}
			// mm.go:114 grid x = Z/4 float4 columns; the kernel tiles LDS and global
			// indices with lSizeX = get_local_size(0) = 8 and has no bounds check, so Z
			// must fill whole 8-wide groups: multiple of 32.
			if p["z"] < 32 || p["z"]%32 != 0 {
				return bad("matrixmultiplication needs z a multiple of 32")
			}
			// mm.go:115 height = Y/4/len(gpus) rows of 4x4 tiles per GPU
			if p["y"] < 4*nq || p["y"]%(4*nq) != 0 {
				return bad("matrixmultiplication needs y a multiple of 4*%d", nq)
			}
			return ""
		},
		// grid y = Y/4/nq with work-group height 8: a partial last row of groups is
		// launched when it is not a multiple of 8 (each work-item fills and reads only
		// its own lIdY rows of blockA, so the kernel tolerates that).
		partial: func(p params, nq int) bool { return (p["y"]/4/nq)%8 != 0 },
	})
	// ------------------------------------------------------------------ amdappsdk/matrixtranspose
	register(&workload{
		name: "matrixtranspose", accept: params{"width": 1024}, timing: fullMatrix, gcn3: true,
		gen: func(t *rapid.T, nq int, timing bool) params {
			return params{"width": drawMult(t, "width/(64*nq)", 64*nq, pick(timing, 2048, 512))}
		},
		check: func(p params, nq int) string {
			// amdappsdk/matrixtranspose/matrixtranspose.go:241 wiWidth = Width/4,
			// :243 numWGWidth = wiWidth/16, :244 wgXPerGPU = numWGWidth/len(queues),
			// :247 wiWidthPerGPU = wiWidth/len(queues); the kernel
			// (native/MatrixTranspose_Kernels.cl) stages 16x16 float4 blocks in LDS
			// without any bounds check: Width must be a multiple of 64 per GPU.
			if p["width"] < 64*nq || p["width"]%(64*nq) != 0 {
				return bad("matrixtranspose needs width a multiple of 64*%d", nq)
			}
			return ""
		},
		partial: func(p params, nq int) bool { return false },
	})
	// ------------------------------------------------------------------ amdappsdk/bitonicsort
	register(&workload{
		// commented out in tests/acceptance/cases.go (sizeArgs -length=4096): no timing class
		name: "bitonicsort", accept: params{"length": 4096, "order-asc": 1}, gcn3: true,
		gen: func(t *rapid.T, nq int, timing bool) params {
			return params{
				"length":    1 << rapid.IntRange(map[int]int{1: 1, 2: 2, 4: 3}[nq], 13).Draw(t, "log2-length"),
				"order-asc": rapid.IntRange(0, 1).Draw(t, "order-asc"),
			}
		},
		check: func(p params, nq int) string {
			// amdappsdk/bitonicsort/bitonicsort.go:156 numStages = floor(log2(Length))
			// and kernels.cl pairs element i with i + 2^k: a bitonic network, only
			// defined for power-of-two lengths. :218-:220 Length/2 work-items are split
			// over the queues, the last queue takes the remainder (any GPU count).
			if !isPow2(p["length"]) || p["length"] < 2 {
				return bad("bitonicsort needs a power-of-two length >= 2")
			}
			// :219 wiPerQueue = (Length/2)/len(queues) work-items are launched on every
			// queue but the last: with fewer work-items than queues that is an empty
			// grid, which no OpenCL/HIP launch admits.
			if p["length"]/2 < nq {
				return bad("bitonicsort needs at least one work-item per queue: length/2 >= %d", nq)
			}
			return ""
		},
		// work-group 64, exact grid (Length/2/nq work-items), partial group when smaller
		partial: func(p params, nq int) bool { return (p["length"]/2/nq)%64 != 0 || (p["length"]/2)%nq != 0 },
	})
	// ------------------------------------------------------------------ amdappsdk/simpleconvolution
	register(&workload{
		name: "simpleconvolution", accept: params{"width": 254, "height": 254, "mask-size": 3}, timing: fullMatrix, gcn3: true,
		gen: func(t *rapid.T, nq int, timing bool) params {
			for {
				mask := rapid.IntRange(1, pick(timing, 7, 3)).Draw(t, "mask-size")
				m := pick(timing, 320, 80)
				p := params{
					"width":     drawSize(t, "width", 1, m, 64),
					"height":    drawSize(t, "height", 1, m, 64),
					"mask-size": mask,
				}
				if simpleConvCovers(p, nq) {
					return p
				}
				// mask-size 1 with a pixel count not divisible by nq: make it divisible
				p["height"] *= nq
				if simpleConvCovers(p, nq) {
					return p
				}
			}
		},
		check: func(p params, nq int) string {
			if p["width"] < 1 || p["height"] < 1 || p["mask-size"] < 1 {
				return bad("simpleconvolution needs width, height, mask-size >= 1")
			}
			// amdappsdk/simpleconvolution/simpleconvolution.go:243 each GPU gets
			// floor((W+pad)*(H+pad)/len(gpus)) work-items (pad = mask-1) numbered from
			// gridSize*gpuIndex; the kernel computes output[tid] for tid < W*H
			// (SimpleConvolution_Kernels.cl:56). All outputs are produced only if the
			// grids together cover W*H.
			if !simpleConvCovers(p, nq) {
				return bad("simpleconvolution grids do not cover the image: floor((W+pad)(H+pad)/%d)*%d < W*H", nq, nq)
			}
			return ""
		},
		// work-group 64, over-provisioned exact grid with `if(x >= width || y >= height) return`
		partial: func(p params, nq int) bool {
			pad := p["mask-size"] - 1
			return ((p["width"]+pad)*(p["height"]+pad)/nq)%64 != 0
		},
	})
	// ------------------------------------------------------------------ amdappsdk/floydwarshall
	register(&workload{
		name: "floydwarshall", accept: params{"node": 16, "iter": 0}, timing: fullMatrix, gcn3: true,
		gen: func(t *rapid.T, nq int, timing bool) params {
			n := drawMult(t, "node/8", 8, pick(timing, 96, 40))
			return params{"node": n, "iter": rapid.SampledFrom([]int{0, 0, 1, 2, n / 2, n, n + 3}).Draw(t, "iter")}
		},
		check: func(p params, nq int) string {
			// amdappsdk/floydwarshall/floydwarshall.go:243-244 a node count that is not
			// a multiple of the 8x8 work-group is rounded UP and the rounded value is
			// passed to the kernel as the row stride, while :166-:181 allocate
			// NumNodes*NumNodes entries and Verify uses stride NumNodes: only multiples
			// of 8 are consistent (the kernel has no bounds check).
			if p["node"] < 8 || p["node"]%8 != 0 {
				return bad("floydwarshall needs node a multiple of 8")
			}
			if p["iter"] < 0 {
				return bad("floydwarshall needs iter >= 0")
			}
			return ""
		},
		partial: func(p params, nq int) bool { return false },
	})
	// ------------------------------------------------------------------ amdappsdk/fastwalshtransform
	register(&workload{
		// not in tests/acceptance/cases.go; sample default -length=1024
		name: "fastwalshtransform", accept: params{"length": 1024}, gcn3: true,
		// amdappsdk/fastwalshtransform/fastwalshtransform.go:145-146 exec issues the
		// COMPLETE sequence of in-place passes to EVERY queue over the same
		// undistributed array: with two or more queues the transform is applied
		// several times concurrently. The host code does not partition the work, so
		// plain multi-GPU is not a supported configuration of this workload.
		plainMultiGPU: "exec runs the whole in-place transform once per queue on the same array (fastwalshtransform.go:145)",
		gen: func(t *rapid.T, nq int, timing bool) params {
			return params{"length": 1 << rapid.IntRange(1, 16).Draw(t, "log2-length")}
		},
		check: func(p params, nq int) string {
			// :146/:204 steps 1,2,4,... < Length pair element i with i+step: Walsh-
			// Hadamard butterflies, defined for power-of-two lengths (Verify itself
			// indexes out of range otherwise).
			if !isPow2(p["length"]) || p["length"] < 2 {
				return bad("fastwalshtransform needs a power-of-two length >= 2")
			}
			return ""
		},
		// :142 grid = Length/2, work-group 256: one partial group when Length < 512
		partial: func(p params, nq int) bool { return (p["length"]/2)%256 != 0 },
	})
	// ------------------------------------------------------------------ amdappsdk/nbody
	register(&workload{
		name: "nbody", accept: params{"particles": 1024, "iter": 8}, timing: fullMatrix, gcn3: true,
		gen: func(t *rapid.T, nq int, timing bool) params {
			return params{
				"particles": drawSize(t, "particles", 0, pick(timing, 1100, 511), 256),
				"iter":      rapid.IntRange(1, 3).Draw(t, "iter"),
			}
		},
		check: func(p params, nq int) string {
			// amdappsdk/nbody/nbody.go:139-142 Run itself normalises the particle count
			// (raised to 256, then rounded down to a multiple of the 256 work-group):
			// every non-negative count is admissible.
			if p["particles"] < 0 || p["iter"] < 1 {
				return bad("nbody needs particles >= 0, iter >= 1")
			}
			return ""
		},
		// the host rounds; the launch itself always uses whole groups
		partial: func(p params, nq int) bool { return p["particles"]%256 != 0 },
	})
	// ------------------------------------------------------------------ amdappsdk/vectoradd
	register(&workload{
		name: "vectoradd", accept: params{"width": 4096, "height": 1}, timing: vectoraddMatrix, cdna3: true, gcn3: false,
		// amdappsdk/vectoradd/vectoradd.go:139-160 every GPU gets numData/len(gpus)
		// work-items and the per-GPU start only as HiddenGlobalOffsetX; the HIP kernel
		// (native/vectoradd.cpp) computes its index as hipBlockDim_x*hipBlockIdx_x +
		// hipThreadIdx_x and never reads a global offset, so every GPU recomputes
		// elements [0, gridSize) and the rest of A stays 0. The host code does not
		// partition the work for this kernel; the acceptance matrix lists multi-GPU
		// vectoradd only as a unified device.
		plainMultiGPU: "the HIP kernel ignores the per-GPU offset the host passes as a hidden argument (vectoradd.go:157, native/vectoradd.cpp)",
		gen: func(t *rapid.T, nq int, timing bool) params {
			groups := rapid.IntRange(1, pick(timing, 4096, 512)/nq).Draw(t, "groups-per-gpu")
			n := 64 * groups * nq
			h := 1 << rapid.IntRange(0, 6).Draw(t, "log2-height")
			for n%h != 0 {
				h /= 2
			}
			return params{"width": n / h, "height": h}
		},
		check: func(p params, nq int) string {
			n := p["width"] * p["height"]
			// amdappsdk/vectoradd/vectoradd.go:139 gridSize = numData/len(gpus) and
			// :148 HiddenBlockCountX = gridSize/64 with HiddenRemainderX left 0: the
			// gfx942 kernel derives its block size from these hidden arguments, so a
			// partial last group would compute with block size 0. The host code only
			// describes grids made of whole 64-wide groups.
			if n < 64*nq || n%(64*nq) != 0 {
				return bad("vectoradd needs width*height a multiple of 64*%d", nq)
			}
			return ""
		},
		partial: func(p params, nq int) bool { return false },
	})
	// ------------------------------------------------------------------ dnn/layer_benchmarks/relu
	register(&workload{
		name: "relu", accept: params{"length": 4096}, timing: fullMatrix, gcn3: true,
		gen: func(t *rapid.T, nq int, timing bool) params {
			return params{"length": nq * drawSize(t, "length-per-gpu", 1, pick(timing, 131072, 16384)/nq, 64)}
		},
		check: func(p params, nq int) string {
			// dnn/layer_benchmarks/relu/main.go:194 numWI = Length/len(gpus), :198 offset numWI*i
			if p["length"] < nq || p["length"]%nq != 0 {
				return bad("relu needs length >= 1 divisible by the %d GPUs used", nq)
			}
			return ""
		},
		// work-group 64, exact grid; kernels.cl:4 also guards `if(index < count)`
		partial: func(p params, nq int) bool { return (p["length"]/nq)%64 != 0 },
	})
	// ------------------------------------------------------------------ shoc/bfs
	register(&workload{
		name: "bfs", accept: params{"node": 1024, "degree": 3, "depth": 0}, timing: bfsMatrix, cdna3: true, gcn3: true,
		// shoc/bfs/bfs.go:94 SelectGPU panics "BFS does not support multi-GPU execution yet."
		plainMultiGPU: "SelectGPU panics for more than one GPU (shoc/bfs/bfs.go:94)",
		gen: func(t *rapid.T, nq int, timing bool) params {
			return params{
				"node":   drawSize(t, "node", 2, pick(timing, 6000, 1024), 1024),
				"degree": rapid.IntRange(0, 8).Draw(t, "degree"),
				"depth":  rapid.SampledFrom([]int{0, 0, 0, 1, 2, 3, 5}).Draw(t, "depth"),
			}
		},
		check: func(p params, nq int) string {
			// shoc/bfs/graph.go:40-43 the generator adds edges u != v until the target
			// count is reached: with one node and degree >= 2 it never terminates.
			if p["node"] < 2 || p["degree"] < 0 || p["depth"] < 0 {
				return bad("bfs needs node >= 2, degree >= 0, depth >= 0")
			}
			return ""
		},
		// shoc/bfs/bfs.go:179-180 work-group 1024, grid rounded up; the kernel clamps
		// its chunk to numVertices (native/kernels.cl chk_sz)
		partial: func(p params, nq int) bool { return p["node"]%1024 != 0 },
	})
	// ------------------------------------------------------------------ shoc/stencil2d
	register(&workload{
		name: "stencil2d", accept: params{"row": 64, "col": 64, "iter": 1}, timing: fullMatrix, cdna3: true, gcn3: true,
		gen: func(t *rapid.T, nq int, timing bool) params {
			return params{
				"row":  drawMult(t, "row/16", 16, pick(timing, 256, 96)),
				"col":  drawMult(t, "col/64", 64, pick(timing, 512, 192)),
				"iter": rapid.IntRange(1, 3).Draw(t, "iter"),
			}
		},
		check: func(p params, nq int) string {
			// shoc/stencil2d/stencil2d.go:307 grid x = (NumRows-2)/16 row blocks (the
			// sample passes NumRows = row+2): interior rows beyond a multiple of 16 are
			// never computed. stencil2d.cl:65 the kernel derives the row length from
			// get_num_groups(1)*get_local_size(1)+2 with work-group width 64 (:308/:310),
			// so col must fill whole groups.
			if p["row"] < 16 || p["row"]%16 != 0 {
				return bad("stencil2d needs row a multiple of 16")
			}
			if p["col"] < 64 || p["col"]%64 != 0 {
				return bad("stencil2d needs col a multiple of 64")
			}
			if p["iter"] < 1 {
				return bad("stencil2d needs iter >= 1")
			}
			return ""
		},
		partial: func(p params, nq int) bool { return false },
	})
	// ------------------------------------------------------------------ shoc/spmv
	register(&workload{
		name: "spmv", accept: params{"dim": 128, "sparsity-permille": 10}, timing: spmvMatrix, cdna3: true, gcn3: true,
		gen: func(t *rapid.T, nq int, timing bool) params {
			for {
				p := params{
					"dim":               drawSize(t, "dim", 1, pick(timing, 1024, 384), 128),
					"sparsity-permille": rapid.SampledFrom([]int{5, 10, 10, 50, 100, 300, 1000}).Draw(t, "sparsity"),
				}
				if p["dim"]*p["dim"]*p["sparsity-permille"]/1000 >= 1 && p["dim"]*p["dim"]*p["sparsity-permille"]/1000 <= 100000 {
					return p
				}
			}
		},
		check: func(p params, nq int) string {
			// shoc/spmv/spmv.go:136 nItems = int(Dim*Dim*Sparsity) non-zeros are placed
			// by rejection sampling (matrix/csr/matrixgenerator.go:131): needs
			// nItems <= Dim*Dim; :156-:176 allocate nItems*4 bytes: needs nItems >= 1.
			n := int(float64(p["dim"]) * float64(p["dim"]) * (float64(p["sparsity-permille"]) / 1000))
			if p["dim"] < 1 || n < 1 || p["sparsity-permille"] > 1000 {
				return bad("spmv needs dim >= 1 and 1 <= dim*dim*sparsity <= dim*dim")
			}
			return ""
		},
		// :189-:191 grid = Dim, work-group 128, partial last group; spmv.cl:66 guards `myRow < dim`
		partial: func(p params, nq int) bool { return p["dim"]%128 != 0 },
	})
	// ------------------------------------------------------------------ shoc/fft
	register(&workload{
		name: "fft", accept: params{"MB": 1, "bytes": 0, "passes": 1}, timing: fullMatrix, cdna3: true, gcn3: true,
		gen: func(t *rapid.T, nq int, timing bool) params {
			return params{
				"MB":     1,
				"bytes":  rapid.IntRange(8192, pick(timing, 2<<20, 256<<10)).Draw(t, "bytes"),
				"passes": rapid.IntRange(1, 2).Draw(t, "passes"),
			}
		},
		check: func(p params, nq int) string {
			// shoc/fft/fft.go:146 halfNFfts = Bytes/8192 (rounded down) and :167 the
			// grid is 64*2*halfNFfts: at least one pair of 512-point transforms.
			bytes := p["bytes"]
			if bytes == 0 {
				bytes = p["MB"] << 20
			}
			if bytes < 8192 || p["passes"] < 1 {
				return bad("fft needs >= 8192 bytes and passes >= 1")
			}
			return ""
		},
		partial: func(p params, nq int) bool { return false },
	})
	// ------------------------------------------------------------------ rodinia/nw
	register(&workload{
		// listed in tests/acceptance/cases.go only for cdna3 emulation (-length=64)
		name: "nw", accept: params{"length": 64}, cdna3: true, gcn3: true,
		// rodinia/nw/benchmark.go:155 SelectGPU panics "nw does not support multi-GPU mode"
		plainMultiGPU: "SelectGPU panics for more than one GPU (rodinia/nw/benchmark.go:155)",
		gen: func(t *rapid.T, nq int, timing bool) params {
			return params{"length": drawMult(t, "length/64", 64, 512)}
		},
		check: func(p params, nq int) string {
			// :108 blockSize = 64 and :246/:292 blockWidth = length/blockSize diagonal
			// blocks: a remainder is never processed.
			if p["length"] < 64 || p["length"]%64 != 0 {
				return bad("nw needs length a multiple of 64")
			}
			return ""
		},
		partial: func(p params, nq int) bool { return false },
	})
	// ------------------------------------------------------------------ dnn/layer_benchmarks/conv2d
	convCheck := func(p params, dil bool) string {
		for _, k := range []string{"N", "C", "H", "W", "kernel-height", "kernel-width", "stride-x", "stride-y"} {
			if p[k] < 1 {
				return bad("%s must be >= 1", k)
			}
		}
		if p["pad-x"] < 0 || p["pad-y"] < 0 {
			return bad("padding must be >= 0")
		}
		dx, dy := 1, 1
		if dil {
			dx, dy = p["dilate-x"], p["dilate-y"]
			if dx < 1 || dy < 1 {
				return bad("dilation must be >= 1")
			}
		}
		// dnn/layer_benchmarks/*/benchmark.go calculateOutputSize and
		// dnn/tensor/operator.go Im2Col: the (dilated) kernel must fit into the
		// padded input, else the output extent is <= 0.
		if (p["kernel-height"]-1)*dy+1 > p["H"]+2*p["pad-y"] || (p["kernel-width"]-1)*dx+1 > p["W"]+2*p["pad-x"] {
			return bad("kernel larger than the padded input")
		}
		return ""
	}
	conv2dCheck := func(p params, nq int) string {
		if p["output-channel"] < 1 {
			return bad("output-channel must be >= 1")
		}
		if why := convCheck(p, false); why != "" {
			return why
		}
		// dnn/layers/conv2d.go:149-156 NewConv2D panics unless the UNPADDED input is
		// at least as large as the kernel.
		if p["H"] < p["kernel-height"] || p["W"] < p["kernel-width"] {
			return bad("conv2d needs H >= kernel-height and W >= kernel-width")
		}
		// dnn/layers/conv2d.go:225-238 the weight gradient is an Im2Col of the input
		// with the output gradient as kernel, stride 1 and dilation = stride; its
		// extent is K + ((H+2*pad-K) mod stride) per axis and :238 copies it into the
		// K-sized gradient tensor (gputensor/operator.go:298 panics on a size
		// mismatch): the backward pass needs the stride to divide H+2*pad-K exactly.
		if p["enable-backward"] != 0 {
			if (p["H"]+2*p["pad-y"]-p["kernel-height"])%p["stride-y"] != 0 || (p["W"]+2*p["pad-x"]-p["kernel-width"])%p["stride-x"] != 0 {
				return bad("conv2d backward needs the strides to divide H+2*pad-K exactly")
			}
		}
		return ""
	}
	register(&workload{
		// not in tests/acceptance/cases.go; sample defaults
		name: "conv2d", gcn3: true,
		accept: params{"N": 1, "C": 1, "H": 28, "W": 28, "output-channel": 3, "kernel-height": 3, "kernel-width": 3,
			"pad-x": 0, "pad-y": 0, "stride-x": 1, "stride-y": 1, "enable-backward": 0},
		plainMultiGPU: "SelectGPU panics for more than one GPU (dnn/layer_benchmarks/conv2d/benchmark.go:56)",
		gen: func(t *rapid.T, nq int, timing bool) params {
			for {
				p := params{
					"N": rapid.IntRange(1, 2).Draw(t, "N"), "C": rapid.IntRange(1, 3).Draw(t, "C"),
					"H": rapid.IntRange(1, 16).Draw(t, "H"), "W": rapid.IntRange(1, 16).Draw(t, "W"),
					"output-channel": rapid.IntRange(1, 4).Draw(t, "output-channel"),
					"kernel-height":  rapid.IntRange(1, 5).Draw(t, "kernel-height"),
					"kernel-width":   rapid.IntRange(1, 5).Draw(t, "kernel-width"),
					"pad-x":          rapid.IntRange(0, 2).Draw(t, "pad-x"), "pad-y": rapid.IntRange(0, 2).Draw(t, "pad-y"),
					"stride-x": rapid.IntRange(1, 3).Draw(t, "stride-x"), "stride-y": rapid.IntRange(1, 3).Draw(t, "stride-y"),
					"enable-backward": rapid.IntRange(0, 1).Draw(t, "enable-backward"),
				}
				if conv2dCheck(p, nq) == "" {
					return p
				}
				if p["enable-backward"] = 0; conv2dCheck(p, nq) == "" {
					return p
				}
			}
		},
		check: conv2dCheck,
		// every gputensor kernel is launched over its element count with work-group
		// 64 (or 16x16 tiles rounded up for gemm) and guards with a bounds check
		partial: func(p params, nq int) bool { return true },
	})
	register(&workload{
		// not in tests/acceptance/cases.go; sample defaults
		name: "im2col", gcn3: true,
		accept: params{"N": 1, "C": 1, "H": 28, "W": 28, "kernel-height": 3, "kernel-width": 3,
			"pad-x": 0, "pad-y": 0, "stride-x": 1, "stride-y": 1, "dilate-x": 1, "dilate-y": 1},
		plainMultiGPU: "SelectGPU panics for more than one GPU (dnn/layer_benchmarks/im2col/benchmark.go:56)",
		gen: func(t *rapid.T, nq int, timing bool) params {
			for {
				// many channels on a small image give a work-group grid that is much taller than
				// wide (the channel count is a code-imposed free parameter; the image is kept small
				// then for cost)
				ch := rapid.SampledFrom([]int{1, 2, 3, 1, 2, 3, 8, 16, 64, 128}).Draw(t, "C")
				maxHW := 24
				if ch > 3 {
					maxHW = 8
				}
				p := params{
					"N": rapid.IntRange(1, 3).Draw(t, "N"), "C": ch,
					"H": rapid.IntRange(1, maxHW).Draw(t, "H"), "W": rapid.IntRange(1, maxHW).Draw(t, "W"),
					"kernel-height": rapid.IntRange(1, 5).Draw(t, "kernel-height"),
					"kernel-width":  rapid.IntRange(1, 5).Draw(t, "kernel-width"),
					"pad-x":         rapid.IntRange(0, 2).Draw(t, "pad-x"), "pad-y": rapid.IntRange(0, 2).Draw(t, "pad-y"),
					"stride-x": rapid.IntRange(1, 3).Draw(t, "stride-x"), "stride-y": rapid.IntRange(1, 3).Draw(t, "stride-y"),
					"dilate-x": rapid.IntRange(1, 2).Draw(t, "dilate-x"), "dilate-y": rapid.IntRange(1, 2).Draw(t, "dilate-y"),
				}
				if convCheck(p, true) == "" {
					return p
				}
			}
		},
		check:   func(p params, nq int) string { return convCheck(p, true) },
		partial: func(p params, nq int) bool { return true },
	})
}

func simpleConvCovers(p params, nq int) bool {
	pad := p["mask-size"] - 1
	return (p["width"]+pad)*(p["height"]+pad)/nq*nq >= p["width"]*p["height"]
}

func sortedKeys(p params) []string {
	keys := make([]string, 0, len(p))
	for k := range p {
		keys = append(keys, k)
	}
	sort.Strings(keys)
	return keys
}

func numQueues(c Case) int {
	if c.Unified {
		return 1
	}
	return len(c.GPUs)
}

func gpuSetOK(g []int) bool {
	switch len(g) {
	case 1:
		return g[0] == 1
	case 2:
		return g[0] == 1 && g[1] == 2
	case 4:
		return g[0] == 1 && g[1] == 2 && g[2] == 3 && g[3] == 4
	}
	return false
}

// admissible returns "" when the case lies in the documented domain.
func admissible(c Case) string {
	w, ok := registry[c.Workload]
	if !ok {
		return "unknown workload"
	}
	if !gpuSetOK(c.GPUs) {
		return "GPU set must be {1}, {1,2} or {1,2,3,4}"
	}
	if c.Unified && len(c.GPUs) == 1 {
		return "a unified device of one GPU is not in the domain"
	}
	switch c.Arch {
	case "gcn3":
		if !w.gcn3 {
			return "workload ships no gcn3 code object"
		}
	case "cdna3":
		if !w.cdna3 {
			return "cdna3 is generated only where the workload ships a gfx942 object and the acceptance matrix lists it"
		}
	default:
		return "arch must be gcn3 or cdna3"
	}
	if !c.Unified && len(c.GPUs) > 1 && w.plainMultiGPU != "" {
		return "plain multi-GPU not supported by the workload: " + w.plainMultiGPU
	}
	if c.Timing {
		if w.timing == nil || !w.timing(c) {
			return "timing mode is claimed only for the configuration classes of tests/acceptance/cases.go"
		}
		want := ""
		if c.Arch == "cdna3" {
			want = "mi300a"
		}
		if c.GPUType != want {
			return "gpu type must be the acceptance matrix's (r9nano default for gcn3, mi300a for cdna3)"
		}
	} else if c.GPUType != "" {
		return "gpu type is only meaningful in timing mode"
	}
	if len(c.P) != len(w.accept) {
		return "parameter set does not match the workload"
	}
	for k := range w.accept {
		if _, ok := c.P[k]; !ok {
			return "parameter " + k + " missing"
		}
	}
	return w.check(c.P, numQueues(c))
}

func sameParams(a, b params) bool {
	if len(a) != len(b) {
		return false
	}
	for k, v := range a {
		if b[k] != v {
			return false
		}
	}
	return true
}

// classify returns the labels of a case and whether it is non-trivial by the
// rule of DESIGN.md §4 C01: parameters differ from the acceptance script's
// fixed size AND at least one of {a dimension not a multiple of the work-group
// size, > 1 GPU, unified device, timing mode, cdna3}.
func classify(w *workload, c Case) ([]string, bool) {
	nq := numQueues(c)
	mode := "emu"
	if c.Timing {
		mode = "timing"
	}
	set := fmt.Sprintf("gpus:%d", len(c.GPUs))
	labels := []string{"workload:" + c.Workload, "mode:" + mode, "arch:" + c.Arch, set, c.Workload + "/" + mode}
	if c.Unified {
		labels = append(labels, "unified-gpu")
	} else if len(c.GPUs) > 1 {
		labels = append(labels, "plain-multi-gpu")
	}
	if c.UnifiedMemory {
		labels = append(labels, "unified-memory")
	}
	part := w.partial(c.P, nq)
	if part {
		labels = append(labels, "size-not-multiple-of-work-group")
	}
	differs := !sameParams(c.P, w.accept)
	if differs {
		labels = append(labels, "size-differs-from-acceptance-size")
	}
	nontrivial := differs && (part || len(c.GPUs) > 1 || c.Unified || c.Timing || c.Arch == "cdna3")
	return labels, nontrivial
}

// genCase draws one case. Every random choice is made here.
func genCase(t *rapid.T) Case {
	var c Case
	// rapid's first draws of a run favour small values, i.e. the head of the
	// list; with the handful of cases per shard of the quick tier that would
	// starve most workloads. The list is therefore rotated by a constant of the
	// process (shard and seed): generation stays a pure function of rapid's
	// bit stream inside one process, which is all that shrinking needs.
	rot := (stats.Shard()*5 + int(stats.Seed()%1000)*7) % len(workloadNames)
	c.Workload = workloadNames[(rapid.IntRange(0, len(workloadNames)-1).Draw(t, "workload")+rot)%len(workloadNames)]
	w := registry[c.Workload]

	// architecture
	c.Arch = "gcn3"
	if !w.gcn3 || (w.cdna3 && rapid.IntRange(0, 2).Draw(t, "cdna3") == 0) {
		c.Arch = "cdna3"
	}
	// GPU set, unified device, unified memory
	c.GPUs = rapid.SampledFrom([][]int{{1}, {1}, {1, 2}, {1, 2}, {1, 2, 3, 4}}).Draw(t, "gpus")
	if len(c.GPUs) > 1 {
		c.Unified = rapid.Bool().Draw(t, "unified")
		if w.plainMultiGPU != "" {
			c.Unified = true
		}
	}
	c.UnifiedMemory = rapid.IntRange(0, 2).Draw(t, "unified-memory") == 0
	// mode: timing for roughly a quarter of the cases, only inside the classes
	// the acceptance matrix lists (otherwise the same configuration runs in emulation)
	wantTiming := rapid.IntRange(0, 3).Draw(t, "timing") == 0
	if wantTiming && w.timing != nil && w.timing(c) {
		c.Timing = true
		if c.Arch == "cdna3" {
			c.GPUType = "mi300a"
		}
	}
	c.P = w.gen(t, numQueues(c), c.Timing)
	c.Seed = rapid.Int64Range(0, 9999).Draw(t, "seed")
	return c
}

// anchors transcribes tests/acceptance/cases.go: sizeArgs of the benchmark +
// one of its listed cases (-parallel and --report-all left out).
func anchors() []Case {
	mk := func(name, what string, gpus []int, unified, um, timing bool, arch string) Case {
		c := Case{Workload: name, P: params{}, Arch: arch, GPUs: gpus, Unified: unified, UnifiedMemory: um, Timing: timing, Seed: 1,
			Anchor: what}
		for k, v := range registry[name].accept {
			c.P[k] = v
		}
		if timing && arch == "cdna3" {
			c.GPUType = "mi300a"
		}
		return c
	}
	return []Case{
		mk("fir", "fir -length=8192 {gpus 1,2,3,4 timing}", []int{1, 2, 3, 4}, false, false, true, "gcn3"),
		mk("aes", "aes -length=16384 {gpus 1,2 emu unified-memory}", []int{1, 2}, false, true, false, "gcn3"),
		mk("matrixmultiplication", "matrixmultiplication -x=128 -y=128 -z=128 {unified-gpus 1,2 emu}", []int{1, 2}, true, false, false, "gcn3"),
		mk("vectoradd", "vectoradd -width=4096 -height=1 {gpus 1 timing cdna3 mi300a}", []int{1}, false, false, true, "cdna3"),
		mk("stencil2d", "stencil2d {unified-gpus 1,2,3,4 emu cdna3}", []int{1, 2, 3, 4}, true, false, false, "cdna3"),
		mk("pagerank", "pagerank -node=64 -sparsity=0.5 -iterations=2 {gpus 1 timing unified-memory}", []int{1}, false, true, true, "gcn3"),
		mk("bfs", "bfs -node=1024 {unified-gpus 1,2 emu}", []int{1, 2}, true, false, false, "gcn3"),
		mk("relu", "relu {unified-gpus 1,2 timing}", []int{1, 2}, true, false, true, "gcn3"),
		mk("kmeans", "kmeans -points=1024 -features=32 -clusters=5 -max-iter=5 {gpus 1,2,3,4 emu}", []int{1, 2, 3, 4}, false, false, false, "gcn3"),
		mk("floydwarshall", "floydwarshall {gpus 1,2 timing}", []int{1, 2}, false, false, true, "gcn3"),
		mk("spmv", "spmv {gpus 1 emu cdna3}", []int{1}, false, false, false, "cdna3"),
		mk("nw", "nw -length=64 {gpus 1 emu cdna3}", []int{1}, false, false, false, "cdna3"),
		mk("simpleconvolution", "simpleconvolution {gpus 1,2 emu}", []int{1, 2}, false, false, false, "gcn3"),
		mk("matrixtranspose", "matrixtranspose -width=1024 {gpus 1,2,3,4 emu unified-memory}", []int{1, 2, 3, 4}, false, true, false, "gcn3"),
		mk("atax", "atax -x=256 -y=256 {unified-gpus 1,2,3,4 emu}", []int{1, 2, 3, 4}, true, false, false, "gcn3"),
		mk("fft", "fft -MB=1 {gpus 1 emu cdna3}", []int{1}, false, false, false, "cdna3"),
	}
}

// RereadsAcrossKernels reports whether the run launches at least three
// kernels of which a later one re-reads (typically on another compute unit)
// global data that an earlier kernel read and an intermediate one rewrote:
// in-place passes (floydwarshall) or ping-pong buffers (pagerank, nbody,
// stencil2d) with >= 3 passes.
func RereadsAcrossKernels(c Case) bool {
	switch c.Workload {
	case "floydwarshall":
		it := c.P["iter"]
		if it == 0 || it > c.P["node"] { // floydwarshall.go:151 resets it to the node count
			it = c.P["node"]
		}
		return it >= 3
	case "pagerank":
		return c.P["iterations"] >= 3
	case "nbody", "stencil2d":
		return c.P["iter"] >= 3
	}
	return false
}

// GenPair draws a concurrent pair: two workloads with their own driver contexts in one
// emulation run on plain GPUs (amd/samples/concurrentworkload), on the same GPU or on two GPUs.
func GenPair(t *rapid.T) Case {
	var c Case
	rot := (stats.Shard()*5 + int(stats.Seed()%1000)*7) % len(workloadNames)
	pick := func(label string) string {
		return workloadNames[(rapid.IntRange(0, len(workloadNames)-1).Draw(t, label)+rot)%len(workloadNames)]
	}
	c.Workload = pick("workload")
	second := pick("workload2")
	c.Arch = "gcn3"
	if !registry[c.Workload].gcn3 || !registry[second].gcn3 {
		c.Arch = "cdna3"
		if !registry[c.Workload].cdna3 {
			c.Workload = "vectoradd"
		}
		if !registry[second].cdna3 {
			second = "vectoradd"
		}
	}
	c.GPUs = []int{1}
	g2 := []int{1}
	if rapid.IntRange(0, 2).Draw(t, "other-gpu") == 0 {
		g2 = []int{2}
	}
	c.P = registry[c.Workload].gen(t, 1, false)
	c.Second = &benchcase.Second{Workload: second, P: registry[second].gen(t, 1, false), GPUs: g2}
	c.Seed = rapid.Int64Range(0, 9999).Draw(t, "seed")
	return c
}

// AdmissiblePair returns "" when both halves of a concurrent pair are admissible single cases.
func AdmissiblePair(c Case) string {
	if c.Second == nil {
		return "not a pair"
	}
	if c.Timing || c.Unified || c.UnifiedMemory || len(c.GPUs) != 1 || len(c.Second.GPUs) != 1 {
		return "a pair runs in emulation, each workload on one plain GPU"
	}
	a := c
	a.Second = nil
	a.GPUs = []int{1}
	if why := admissible(a); why != "" {
		return "first workload: " + why
	}
	b := a
	b.Workload, b.P = c.Second.Workload, c.Second.P
	if why := admissible(b); why != "" {
		return "second workload: " + why
	}
	return ""
}
