#!/bin/bash
# runs every thorough command once, sequentially; prints one summary line per check
cd "$(dirname "$0")/.."
for p in ${@:-C17 C04 C06 C13 C15 C16 C03 C07 C10 C09 C20 C19 C18 C12 C05 C01 C08 C02 C14 C11}; do
  s=$(date +%s)
  ./check $p thorough > /tmp/thorough-$p.log 2>&1
  rc=$?
  echo "$p thorough exit=$rc $(( $(date +%s)-s ))s :: $(tail -1 /tmp/thorough-$p.log)"
  grep -A1 "VIOLATION\|INCONCLUSIVE\|VACUOUS" /tmp/thorough-$p.log | head -6 | cut -c1-400
done
echo ALL-DONE
