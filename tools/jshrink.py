#!/usr/bin/env python3
"""Greedy structural shrinker for replay files: tools/jshrink.py <PID> <replay.json> [needle]
Deletes list elements / zeroes numbers anywhere in the case while `./check PID --replay` still reports a
violation (whose message contains `needle`, if given). Writes <replay>.min.json."""
import json, subprocess, sys, copy, os, tempfile
pid, path = sys.argv[1], sys.argv[2]
needle = sys.argv[3] if len(sys.argv) > 3 else ""
V = os.path.dirname(os.path.dirname(os.path.abspath(__file__)))
doc = json.load(open(path))
binp = os.path.join(V, ".build", pid.lower() + ".test")
def fails(case):
    d = dict(doc); d["case"] = case
    f = tempfile.NamedTemporaryFile("w", suffix=".json", delete=False); json.dump(d, f); f.close()
    env = dict(os.environ, VERIF_REPLAY=f.name, VERIF_REPLAY_DIR=tempfile.mkdtemp(), VERIF_DIR=V)
    try:
        r = subprocess.run([binp, "-test.run", "^TestReplay$", "-test.count=1", "-test.timeout=300s"], cwd=os.path.join(V, "props", pid.lower()),
                           env=env, capture_output=True, text=True, timeout=400)
    except subprocess.TimeoutExpired:
        return False
    finally:
        os.unlink(f.name)
    out = r.stdout + r.stderr
    return r.returncode != 0 and "VIOLATION-CASE" in out and needle in out
def paths(x, p=()):
    if isinstance(x, list):
        yield p, "list"
        for i, v in enumerate(x): yield from paths(v, p + (i,))
    elif isinstance(x, dict):
        for k, v in x.items(): yield from paths(v, p + (k,))
    elif isinstance(x, (int, float)) and not isinstance(x, bool) and x not in (0, 1):
        yield p, "num"
def get(x, p):
    for k in p: x = x[k]
    return x
def setp(x, p, v):
    for k in p[:-1]: x = x[k]
    x[p[-1]] = v
case = doc["case"]
assert fails(case), "the case does not fail"
changed = True
while changed:
    changed = False
    for p, kind in list(paths(case)):
        try: cur = get(case, p)
        except (KeyError, IndexError): continue
        if kind == "list":
            i = len(cur) - 1
            while i >= 0:
                c = copy.deepcopy(case); del get(c, p)[i]
                if fails(c): case = c; changed = True; cur = get(case, p)
                i -= 1
        else:
            for nv in (0, 1):
                c = copy.deepcopy(case); setp(c, p, nv)
                if fails(c): case = c; changed = True; break
doc["case"] = case
json.dump(doc, open(path + ".min.json", "w"))
print(json.dumps(case))
