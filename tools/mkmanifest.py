#!/usr/bin/env python3
"""Regenerates /verif/MANIFEST.json from props/*/check.json (one source of truth per check)."""
import json, glob, os, subprocess
V = os.path.dirname(os.path.dirname(os.path.abspath(__file__)))
props = [json.loads(l)["id"] for l in open(os.path.join(V, "properties.jsonl"))]
cfgs = {}
for p in glob.glob(os.path.join(V, "props", "c*", "check.json")):
    c = json.load(open(p)); cfgs[c["property"]] = c
hooks_file = os.path.join(V, "tools", "hooks.json")
hooks = json.load(open(hooks_file)) if os.path.exists(hooks_file) else {"source_commits": []}
m = {
 "version": 1,
 "setup_cmd": "./check --setup",
 "hooks": {
  "guard": "verif",
  "enable": "go build tag: every check is compiled with `go test -c -tags verif` from /verif (module verif, replace github.com/sarchlab/mgpusim/v4 => /repo); hook files in /repo carry `//go:build verif`",
  "baseline_off_cmd": "cd /repo && GOFLAGS=-mod=mod GOPROXY=off go test -vet=off -count=1 -timeout 25m ./...",
  "source_commits": hooks.get("source_commits", []),
  "add_only": True
 },
 "engines": [
  {"name": "rapid", "path": "/verif/check", "serves_properties": sorted(cfgs),
   "kind_free_text": "pgregory.net/rapid v1.3.0 generators + shrinking, sharded by derived seed; per-property Go test packages under /verif/props; python3 driver merges evidence parts"}
 ],
 "checks": [],
 "not_applicable": [],
 "notes": "exit 0 = held on everything explored (KNOWN-FINDING lines for listed findings); exit 1 = VIOLATION line(s); exit 2 = inconclusive/infrastructure. VERIF_SEED selects the derived rapid seeds. See DESIGN.md."
}
ready = set(open(os.path.join(V, "tools", "ready.txt")).read().split())
for pid in props:
    c = cfgs.get(pid)
    if c is not None and pid not in ready:
        m["not_applicable"].append({"property_id": pid, "reason": "check under construction (props/%s exists but is not yet validated on the unchanged tree); no claim is made for it yet" % pid.lower()})
        continue
    if c is None:
        m["not_applicable"].append({"property_id": pid, "reason": "check not built yet (planned in DESIGN.md section 4); no claim is made for it"})
        continue
    e = {
     "property_id": pid,
     "quick_cmd": f"./check {pid} quick",
     "thorough_cmd": f"./check {pid} thorough",
     "evidence_file": f"/verif/evidence/{pid}.json",
     "replay_cmd_template": f"./check {pid} --replay {{path}}",
     "engine": "rapid",
     "level_claimed": {"category": c.get("level", "exploration"), "text": c.get("level_text", ""), "design_ref": c.get("design_ref", "DESIGN.md section 4, " + pid)},
     "level_note": c.get("level_note", "; ".join(c.get("assumptions", []))),
     "technique": c.get("technique", "property-based testing (rapid): generated cases against an explicit oracle, shrunk failures saved as replay files"),
    }
    m["checks"].append(e)
json.dump(m, open(os.path.join(V, "MANIFEST.json"), "w"), indent=1)
print("MANIFEST.json:", len(m["checks"]), "checks,", len(m["not_applicable"]), "not claimed")
