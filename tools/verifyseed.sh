#!/bin/bash
# tools/verifyseed.sh <PID> [round]: confirms a seeded change in /tmp/seed[round]-<PID> (+ -out) and stores it under /verif/seeded/<PID>[-round]/
export GOFLAGS=-mod=mod GOPROXY=off
P=$1; R=$2; W=/tmp/seed$R-$P; O=/tmp/seed$R-$P-out; D=/verif/seeded/$P; [ -n "$R" ] && D=/verif/seeded/$P-$R
cd $W || exit 2
cmd=$(python3 -c "import json;print(json.load(open('$O/meta.json'))['demo_cmd'])")
echo "== $P demo_cmd: $cmd"
git -C $W diff > /tmp/seed$R-$P.cur.diff
go build ./... > /tmp/seed$R-$P.build.log 2>&1; b=$?
go test -vet=off -count=1 ./amd/insts/ ./amd/kernels/ ./amd/bitops/ ./amd/emu/cdna3/ ./amd/timing/cp/internal/resource/ ./nvidia/... > /tmp/seed$R-$P.tests.log 2>&1; t=$?
( eval "$cmd" ) > /tmp/seed$R-$P.demo-with.log 2>&1; with=$?
git apply -R /tmp/seed$R-$P.cur.diff || exit 2
( eval "$cmd" ) > /tmp/seed$R-$P.demo-without.log 2>&1; without=$?
git apply /tmp/seed$R-$P.cur.diff || exit 2
echo "build=$b demo_with_patch=$with demo_without_patch=$without existing_tests=$t"
if [ $b -eq 0 ] && [ $with -ne 0 ] && [ $without -eq 0 ] && [ $t -eq 0 ]; then
  mkdir -p $D; cp $O/patch.diff $D/patch.diff; rm -rf $D/demo; cp -r $O/demo $D/demo
  python3 - "$P" "$b" "$with" "$without" "$t" "$R" "$D" <<'PY'
import json,sys
P=sys.argv[1]; R=sys.argv[6]; D=sys.argv[7]
m=json.load(open(f'/tmp/seed{R}-{P}-out/meta.json'))
m['confirmed_by_lead']={"worktree":f"/tmp/seed{R}-{P} (scratch git worktree of /repo, removed afterwards)","go build ./...":"ok","demo with patch":"fails (exit %s)"%sys.argv[3],"demo without patch (patch reverted)":"passes","existing tests (amd/insts, amd/kernels, amd/bitops, amd/emu/cdna3, amd/timing/cp/internal/resource, nvidia/...) with patch":"pass"}
json.dump(m,open(D+'/meta.json','w'),indent=1)
PY
  echo "stored in $D"
else
  echo "NOT CONFIRMED"; tail -n 5 /tmp/seed$R-$P.demo-with.log /tmp/seed$R-$P.demo-without.log /tmp/seed$R-$P.tests.log | cut -c1-300
fi
