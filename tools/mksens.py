#!/usr/bin/env python3
"""Regenerates section A (seeded changes) of SENSITIVITY.md from seeded/*/meta.json."""
import json, glob, os, re
V = os.path.dirname(os.path.dirname(os.path.abspath(__file__)))
rows = []
for d in sorted(glob.glob(os.path.join(V, "seeded", "*"))):
    mf = os.path.join(d, "meta.json")
    if not os.path.exists(mf):
        continue
    m = json.load(open(mf))
    sid = os.path.basename(d)
    def one(s, n):
        s = re.sub(r"\s+", " ", str(s)).replace("|", "/")
        return s if len(s) <= n else s[: n - 3] + "..."
    det = "; ".join(f"{x['check']} {x['tier']}: {x['result']}" for x in m.get("detected_by", [])) or "not evaluated"
    rows.append(f"| {sid} | {one(', '.join(m.get('files', []) if isinstance(m.get('files'), list) else [str(m.get('files'))]), 90)} | {one(m.get('summary',''), 330)} | {one(m.get('needs',''), 260)} | {one(det, 420)} |")
table = "| seed | files | change | needs | detected by |\n|---|---|---|---|---|\n" + "\n".join(rows)
p = os.path.join(V, "SENSITIVITY.md")
s = open(p).read()
start = s.index("<!-- SEEDED-TABLE-START -->") + len("<!-- SEEDED-TABLE-START -->")
end = s.index("<!-- SEEDED-TABLE-END -->")
s = s[:start] + "\n" + table + "\n" + s[end:]
open(p, "w").write(s)
print(len(rows), "seeded changes listed")
