#!/bin/bash
# tools/evalseed.sh <PID> <round> [seeds...]: runs the quick tier of <PID> against the seeded worktree /tmp/seed<round>-<PID>
# at the given VERIF_SEED values (default 1) and prints exit status + first violation lines; then confirms and stores the seed.
P=$1; R=$2; shift 2; S=${@:-1}
cd /verif
for s in $S; do
  out=$(VERIF_REPO=/tmp/seed$R-$P VERIF_SEED=$s ./check $P quick 2>&1)
  echo "== $P round $R seed $s: $(echo "$out" | tail -n 1)"
  echo "$out" | grep -A1 "^VIOLATION" | head -n 4 | cut -c1-400
done
tools/verifyseed.sh $P $R 2>&1 | tail -n 3
