#!/usr/bin/env python3
"""tools/markseed.py <seed dir name under seeded/> <check id> <tier> <result text>: records which check detects a stored seeded change."""
import json, sys, os
d, chk, tier, text = sys.argv[1:5]
p = os.path.join(os.path.dirname(os.path.dirname(os.path.abspath(__file__))), "seeded", d, "meta.json")
m = json.load(open(p))
m["detected_by"] = [e for e in m.get("detected_by", []) if e.get("check") != chk or e.get("tier") != tier] + [{"check": chk, "tier": tier, "result": text}]
json.dump(m, open(p, "w"), indent=1)
print("marked", d)
