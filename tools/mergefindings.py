#!/usr/bin/env python3
"""Merges props/*/findings.json (development overlays) into KNOWN_FINDINGS.json. Usage: mergefindings.py [id=commit ...]"""
import json, glob, os, sys
V = os.path.dirname(os.path.dirname(os.path.abspath(__file__)))
kp = os.path.join(V, "KNOWN_FINDINGS.json")
k = json.load(open(kp))
have = {f["id"]: f for f in k["findings"]}
commits = dict(a.split("=", 1) for a in sys.argv[1:])
for p in sorted(glob.glob(os.path.join(V, "props", "c*", "findings.json"))):
    for f in json.load(open(p)).get("findings", []):
        if f["id"] in have:
            have[f["id"]].update(f)
        else:
            k["findings"].append(f); have[f["id"]] = f
for i, c in commits.items():
    have[i]["commit"] = c
for f in k["findings"]:
    if f.get("status") == "fixed" and not f.get("commit"):
        print("WARNING: fixed finding without commit:", f["id"])
json.dump(k, open(kp, "w"), indent=1)
print(len(k["findings"]), "findings")
